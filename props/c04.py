"""C04 -- retries respect every budget, spare non-idempotent requests, terminate.
Engine: simnet + virtual clock.  The oracle is a set of inequalities over the wire
log, not a re-implementation of Retry."""
from __future__ import annotations

import copy
import email.utils

from simkit import harness as H
from simkit import world as W
from simkit.runner import Result, rng_for

ID = "C04"
ENGINE = "simnet"
LEVEL = "exploration"
TECHNIQUE = "deterministic network simulation with virtual clock: seeded Retry configurations x scripted per-attempt outcome sequences; budget inequalities over the wire log"
LEVEL_TEXT = (
    "Seeded Retry configurations (small integer/None/False domains) x methods x outcome sequences of length <= 5 (connect errors, read errors, TLS/CONNECT errors, statuses with and "
    "without Retry-After) on direct, forwarding-proxy and CONNECT-tunnel paths with every sleep on a virtual clock; the attempts seen by the simulated network are checked against "
    "budget inequalities, idempotency, immutability, sleep bounds and surfacing rules. Sampling."
)
LEVEL_NOTE = "trusted: category of each injected outcome is defined by where the world injected it (dial queue = connect, after the request reached the peer = read/status, TLS/CONNECT refusal = other)"
N = {"quick": 60000, "thorough": 900000}
BUDGET = {"quick": 45, "thorough": 420}
RULE = (
    "index k -> (entry point, path, Retry spec or int/False/None, placement request|pool, method, dial outcomes, exchange outcomes). Non-trivial = at least one retry or one fault; "
    "distinct = distinct (abstract trace of event kinds + socket ids, recorded sleeps, Retry spec, method, placement, entry point)."
)
ASSUMPTIONS = [
    "one request per scenario on a fresh pool (no stale-connection effects); redirects disabled",
    "Retry-After as HTTP-date is compared with 1 s tolerance (the header has second resolution)",
]
REQUIRED_PROBES = {
    "quick": ["retried", "exhausted:MaxRetryError", "returned_last_response", "slept_backoff", "slept_retry_after", "nonidempotent_not_resent", "retries_false"],
    "thorough": ["retried", "exhausted:MaxRetryError", "returned_last_response", "slept_backoff", "slept_retry_after", "nonidempotent_not_resent", "retries_false", "tunnel", "tls_error_retried"],
}

METHODS = ["GET", "HEAD", "PUT", "DELETE", "POST", "PATCH"]
DEFAULT_ALLOWED = {"HEAD", "GET", "PUT", "DELETE", "OPTIONS", "TRACE"}


def gen_retry(rng):
    c = rng.random()
    if c < 0.08:
        return False
    if c < 0.14:
        return None
    if c < 0.26:
        return rng.choice([0, 1, 2, 3])
    spec = {
        "total": rng.choice([None, False, 0, 1, 2, 3, 3]),
        "connect": rng.choice([None, None, 0, 1, 2]),
        "read": rng.choice([None, None, 0, 1, 2]),
        "status": rng.choice([None, None, 0, 1, 2]),
        "other": rng.choice([None, None, 0, 1, 2]),
    }
    if rng.random() < 0.15:
        spec[rng.choice(["connect", "read", "status", "other"])] = False  # "no retry for this category" (the statement's False domain)
    if spec["total"] is False and rng.random() < 0.5:
        spec = {"total": False}
    am = rng.choice(["default", "default", None, ["POST"]])
    if am != "default":
        spec["allowed_methods"] = am
    spec["status_forcelist"] = rng.choice([[], [500], [429, 503], [500, 503]])
    spec["raise_on_status"] = rng.random() < 0.7
    # the redirect side of the policy is independent of everything here (no exchange is a redirect): it must not change what
    # an exhausted status budget turns into
    if rng.random() < 0.5:
        spec["raise_on_redirect"] = rng.random() < 0.5
    if rng.random() < 0.2:
        spec["redirect"] = rng.choice([0, 1, False])
    spec["respect_retry_after_header"] = rng.random() < 0.75
    spec["backoff_factor"] = rng.choice([0, 0, 0.1, 1, 100])
    spec["backoff_max"] = rng.choice([0.5, 120])
    spec["backoff_jitter"] = rng.choice([0.0, 0.0, 1.0])
    return spec


def gen_exchange(rng, https: bool):
    c = rng.random()
    if c < 0.30:
        return {"k": rng.choice(["eof", "rst", "stall", "garbage"])}
    if c < 0.36:
        return {"k": "resp", "status": 200, "framing": rng.choice(["cl", "chunked"]), "body": {"tag": 6}, "cut_body": rng.choice([0, 5, 30, 60]), "end": rng.choice(["eof", "rst"])}
    if c < 0.55:
        return {"k": "resp", "status": rng.choice([500, 503, 429]), "body": "err"}
    if c < 0.80:
        # ("date:-N": an HTTP-date that is already past -- clock skew, a cached error page)
        ra = rng.choice(["0", "1", "2", "7", "1000", "date:3", "date:300", "bogus", "date:-30", "date:-2"])
        return {"k": "resp", "status": rng.choice([413, 429, 503, 503, 500, 404, 200]), "retry_after": ra, "body": "later"}
    if c < 0.9:
        return {"k": "resp", "status": rng.choice([200, 404, 418]), "body": "fine"}
    return {"k": "resp", "status": 200, "body": "ok"}


def gen(rng, tier):
    paths = ["direct"] * 5 + ["fwd"] * 3 + (["direct_tls", "tunnel", "tunnel"] if tier == "thorough" else ["tunnel", "direct_tls"])
    path = rng.choice(paths)
    retry = gen_retry(rng)
    cfg = {"path": path, "retry": retry, "placement": rng.choice(["request", "request", "pool"]), "entry": rng.choice(["pool", "manager"]), "method": rng.choice(METHODS), "timeout": {"connect": 2.0, "read": 3.0}}
    if path == "direct" and cfg["entry"] == "manager":
        pass
    nd = rng.choice([0, 0, 0, 1, 1, 2, 3])
    dials = [rng.choice([{"k": "refused"}, {"k": "timeout"}, {"k": "slow", "d": 5.0}, {"k": "unreach"}, {"k": "ok"}]) for _ in range(nd)]
    nx = rng.choice([0, 1, 1, 2, 2, 3, 4, 5])
    https = path in ("direct_tls", "tunnel")
    ex = [gen_exchange(rng, https) for _ in range(nx)]
    sc = {"property": ID, "config": cfg, "dials": dials, "exchanges": ex, "jitter_seed": rng.randrange(1000)}
    if https and rng.random() < 0.4:
        sc["backend"] = "pyopenssl"
    if https and rng.random() < 0.3:
        sc["certs"] = [rng.choice(["bad_any", "any"]) for _ in range(rng.choice([1, 2]))]
    if path == "tunnel" and rng.random() < 0.3:
        sc["connects"] = [rng.choice([{"k": "resp", "status": 403}, {"k": "resp", "status": 502}, {"k": "eof"}, {"k": "resp", "status": 200}]) for _ in range(rng.choice([1, 2]))]
    return sc


def cases(seed, k, tier):
    yield gen(rng_for(seed, ID, k), tier)


def _prep_exchanges(w, exchanges):
    """Resolve symbolic Retry-After values against the virtual wall clock."""
    out = []
    for ex in exchanges:
        ex = dict(ex)
        ra = ex.pop("retry_after", None)
        if ra is not None:
            ex["_ra"] = ra
            hdrs = list(ex.get("headers") or [])
            hdrs.append(["Retry-After", ra])  # date forms are filled in when the response is generated
            ex["headers"] = hdrs
        out.append(ex)
    return out


def run(sc: dict) -> Result:
    if sc.get("backend") == "pyopenssl":
        # the alternative TLS backend (urllib3.contrib.pyopenssl, in memory: simkit/ossl.py) for the duration of this run: its read
        # time-outs and resets must land in the same categories as the stdlib backend's
        from simkit import ossl

        with ossl.injected():
            res = _run(sc)
        res.probes["backend:pyopenssl"] += 1
        return res
    return _run(sc)


def _run(sc: dict) -> Result:
    from urllib3.exceptions import MaxRetryError, ResponseError
    from urllib3.util.retry import Retry

    res = Result()
    cfg = sc["config"]
    sc2 = dict(sc)
    sc2["exchanges"] = _prep_exchanges(None, sc["exchanges"])
    w = H.std_world(sc2)
    ra_values = {}  # exchange index (order served) -> seconds promised

    def responder(world, peer, req):
        if not world.exchanges:
            return None
        spec = dict(world.exchanges.popleft())
        ra = spec.get("_ra")
        if ra is not None:
            n_served = len([a for a in world.attempts if a[0] != "connect" and a[1] != "connect-refused" and a[1] != "tls-untrusted"])
            if ra.startswith("date:"):
                secs = float(ra[5:])
                val = email.utils.formatdate(world.clock.time() + secs, usegmt=True)
                ra_values[n_served] = ("date", secs)
            else:
                val = ra
                ra_values[n_served] = ("num", float(ra)) if ra.isdigit() else ("bogus", None)
            spec["headers"] = [[k_, (val if k_ == "Retry-After" else v_)] for k_, v_ in spec["headers"]]
        return spec

    w.responder = responder
    retry_obj = H.mk_retry(cfg["retry"]) if cfg["retry"] != "default" else None
    method = cfg["method"]
    with H.RunEnv(), H.quiet_warnings(), w:
        kw_pool = {}
        kw_req = {}
        if cfg["placement"] == "pool":
            kw_pool["retries"] = retry_obj
        else:
            kw_req["retries"] = retry_obj
        before = H.retry_fields(retry_obj) if isinstance(retry_obj, Retry) else None
        default_before = H.retry_fields(Retry.DEFAULT)
        cl = H.Client({"path": cfg["path"], "maxsize": 1, "timeout": cfg["timeout"], "entry": cfg["entry"]}, **kw_pool)
        outcome = None
        try:
            if cfg["entry"] == "manager":
                r = cl.manager.request(method, cl.base + "/x", redirect=False, **kw_req)
            else:
                r = cl.urlopen(method, "/x", redirect=False, **kw_req)
            outcome = ("response", r.status)
        except (W.SimHang, W.StepLimit) as e:
            res.bad("no_termination", str(e))
            outcome = ("limit", None)
        except Exception as e:
            outcome = ("exc", e)
            H.strip_tb(e)

        att = list(w.attempts)
        k = len(att)
        res.info["attempts"] = att
        res.info["outcome"] = (outcome[0], type(outcome[1]).__name__ if outcome[0] == "exc" else outcome[1])
        # ---- effective policy (what the statement calls the applicable budgets)
        eff = retry_obj
        if eff is None:
            eff_fields = {x: default_before[x] for x in ("total", "connect", "read", "status", "other")}  # the library default, read before the call
            policy = Retry.DEFAULT
        elif eff is False:
            eff_fields = dict(total=False, connect=None, read=None, status=None, other=None)
            policy = Retry(False)
        elif isinstance(eff, int):
            eff_fields = dict(total=eff, connect=None, read=None, status=None, other=None)
            policy = Retry(eff)
        else:
            eff_fields = {x: before[x] for x in ("total", "connect", "read", "status", "other")}
            policy = eff
        allowed = policy.allowed_methods
        retryable_method = (not allowed) or method.upper() in allowed
        forcelist = set(policy.status_forcelist or ())

        def cat(a):
            c = a[0]
            if c == "response":
                return "status"
            if a[1] == "connect-refused":
                return "tunnel"  # CONNECT-phase failure: the statement assigns it no category; only `total` applies
            return c

        retried = att[:-1] if att else []
        if k >= 2:
            res.probes["retried"] += 1
        total = eff_fields["total"]
        if total is False:
            res.probes["retries_false"] += 1
            if k > 1:
                res.bad("budget_exceeded:total=False", f"{k} attempts with retries disabled: {att}")
            if outcome[0] == "exc" and isinstance(outcome[1], MaxRetryError) and att and cat(att[-1]) != "status":
                res.bad("retries_false_not_reraised", f"retries disabled but the error surfaced as MaxRetryError: {outcome[1]!r}")
        elif total is not None:
            if len(retried) > int(total):
                res.bad("budget_exceeded:total", f"{k} attempts on the wire, total={total}: {att}")
        for X in ("connect", "read", "status", "other"):
            b = eff_fields[X]
            if b is None or b is False:
                if b is False and any(cat(a) == X for a in retried):
                    res.bad(f"budget_exceeded:{X}=False", f"{att}")
                continue
            n = sum(1 for a in retried if cat(a) == X)
            if n > int(b):
                res.bad(f"budget_exceeded:{X}", f"{n} retried {X}-category attempts, {X}={b}: {att}")
        if not retryable_method:
            for i, a in enumerate(retried):
                if a[0] == "read" or (a[0] == "response" and a[4] is not None and a[4] >= 400):
                    res.bad("nonidempotent_resent", f"{method} re-sent after attempt {i} {a} (allowed_methods={sorted(allowed)})")
                    break
            else:
                if att and (att[-1][0] == "read" or (att[-1][0] == "response" and (att[-1][4] or 0) >= 400)):
                    res.probes["nonidempotent_not_resent"] += 1
        # ---- immutability
        if before is not None and H.retry_fields(retry_obj) != before:
            res.bad("retry_mutated", f"caller's Retry changed: {before} -> {H.retry_fields(retry_obj)}")
        if H.retry_fields(Retry.DEFAULT) != default_before:
            res.bad("retry_default_mutated", "Retry.DEFAULT changed")
        # ---- sleeps
        bmax = policy.backoff_max
        respect = policy.respect_retry_after_header
        sleeps = list(w.clock.sleeps)
        if sleeps:
            served = [a for a in att if a[0] in ("response", "read") and a[1] not in ("connect-refused", "tls-untrusted")]
            honoured = []
            for i, a in enumerate(served):
                v = ra_values.get(i)
                if v and respect and a[0] == "response" and a[4] in (413, 429, 503) and v[0] in ("num", "date"):
                    honoured.append(v)
            for d in sleeps:
                if 0 <= d <= bmax + 1e-9:
                    res.probes["slept_backoff"] += 1
                    continue
                if any((v[0] == "num" and abs(d - v[1]) < 1e-6) or (v[0] == "date" and v[1] - 1.001 <= d <= v[1] + 1e-6) for v in honoured):
                    res.probes["slept_retry_after"] += 1
                    continue
                res.bad("sleep_out_of_bounds", f"slept {d} s; backoff_max={bmax}, Retry-After values that may be honoured: {honoured}; attempts {att}")
            if any(d < 0 for d in sleeps):
                res.bad("sleep_negative", str(sleeps))
        # ---- surfacing
        if outcome[0] == "exc":
            e = outcome[1]
            if not H.is_urllib3_error(e):
                res.bad(f"raw_exception:{type(e).__name__}", repr(e))
            elif isinstance(e, MaxRetryError):
                res.probes["exhausted:MaxRetryError"] += 1
                last = att[-1] if att else None
                reason = e.reason
                if last is not None:
                    lc = cat(last)
                    okr = {
                        "connect": ("ConnectTimeoutError", "NewConnectionError", "NameResolutionError", "ProxyError"),
                        "read": ("ReadTimeoutError", "ProtocolError", "IncompleteRead", "InvalidChunkLength", "ProxyError"),
                        "other": ("SSLError", "ProxyError"),
                        "status": ("ResponseError",),
                        "tunnel": ("ProxyError", "ProtocolError", "ReadTimeoutError", "SSLError"),
                    }[lc]
                    if type(reason).__name__ not in okr:
                        res.bad("wrong_cause", f"MaxRetryError.reason={reason!r} but the last attempt was {last}")
                    if lc == "status" and not policy.raise_on_status:
                        res.bad("raised_despite_raise_on_status_false", f"{e!r}; last attempt {last}; raise_on_redirect={policy.raise_on_redirect}")
            else:
                res.probes["raised:" + type(e).__name__] += 1
        elif outcome[0] == "response":
            last = att[-1] if att else None
            if last is None or last[0] != "response" or last[4] != outcome[1]:
                res.bad("wrong_response", f"returned status {outcome[1]} but the last attempt on the wire was {last}")
            else:
                if outcome[1] >= 400 and k >= 2:
                    res.probes["returned_last_response"] += 1
                if retryable_method and outcome[1] in forcelist:
                    # a forcelisted status on a retryable method is either retried or the end of the budget; handing it back
                    # is what raise_on_status=False asks for, and nothing else does
                    if policy.raise_on_status:
                        res.bad("exhaustion_not_raised", f"forcelisted {outcome[1]} returned after {k} attempts although raise_on_status is set (raise_on_redirect={policy.raise_on_redirect})")
                    else:
                        res.probes["exhausted_return"] += 1
        if any(a[1] == "tls-untrusted" for a in retried):
            res.probes["tls_error_retried"] += 1
        if cfg["path"] == "tunnel" and any(q.method == "CONNECT" for q in w.requests):
            res.probes["tunnel"] += 1
        res.faults.update(w.faults_fired)
        cl = None
        res.digest = w.digest()
        res.trace = hash((w.abstract_trace(), tuple(round(x, 3) for x in sleeps), repr(cfg["retry"]), method, cfg["placement"], cfg["entry"]))
        res.nontrivial = k >= 2 or bool(w.faults_fired)
        res.sim_s = w.now - W.VClock.START
        res.steps = w.io_step
    return res


def shrinks(sc):
    for key in ("dials", "exchanges", "certs", "connects"):
        for i in range(len(sc.get(key) or [])):
            c = copy.deepcopy(sc)
            del c[key][i]
            yield c
    if sc.get("backend"):
        c = copy.deepcopy(sc)
        del c["backend"]
        yield c
    cfg = sc["config"]
    for fld, simple in (("path", "direct"), ("entry", "pool"), ("placement", "request"), ("method", "GET")):
        if cfg[fld] != simple:
            c = copy.deepcopy(sc)
            c["config"][fld] = simple
            yield c
    r = cfg["retry"]
    if isinstance(r, dict):
        for fld in list(r):
            if fld != "total":
                c = copy.deepcopy(sc)
                del c["config"]["retry"][fld]
                yield c
        if len(r) == 1 and r.get("total") not in (None, False):
            c = copy.deepcopy(sc)
            c["config"]["retry"] = r["total"]
            yield c
    for i, ex in enumerate(sc["exchanges"]):
        for fld in ("retry_after", "cut_body", "framing", "end"):
            if fld in ex:
                c = copy.deepcopy(sc)
                del c["exchanges"][i][fld]
                yield c


# ----------------------------------------------------------------------------- known findings


def _trig_proxy_read(sc, res):
    # the recorded defect: behind a proxy, a *reset or EOF* while waiting for the response (http.client has closed the connection by the
    # time the error is classified).  Read time-outs and unparsable replies are classified correctly on this tree.
    return sc["config"]["path"] in ("fwd", "tunnel") and any(a[0] == "read" and a[1] in ("eof", "rst") for a in res.info.get("attempts", []))


def _neut_proxy_read(sc):
    # the same history with every such connection loss turned into silence (a read time-out), proxy kept
    for ex in sc["exchanges"]:
        if ex.get("k") in ("eof", "rst"):
            ex["k"] = "stall"
    return sc


def _trig_retry_after(sc, res):
    # the recorded defect: a response that is retried *because its status is forcelisted* and that carries Retry-After is waited for
    # as the header says.  (A status outside 413/429/503 that is not forcelisted is not retried at all on this tree.)
    r = sc["config"].get("retry")
    forcelist = set(r.get("status_forcelist") or ()) if isinstance(r, dict) else set()
    return any(ex.get("retry_after") not in (None, "0", "bogus") and ex.get("status") not in (413, 429, 503) and ex.get("status") in forcelist for ex in sc["exchanges"])


def _neut_retry_after(sc):
    for ex in sc["exchanges"]:
        if ex.get("status") not in (413, 429, 503):
            ex.pop("retry_after", None)
    return sc


KNOWN = {
    "KF-C04-proxy-read-error-is-other": (_trig_proxy_read, _neut_proxy_read),
    "KF-C04-retry-after-any-status": (_trig_retry_after, _neut_retry_after),
}
