"""Shared machinery for C05/C06: a small simulated web of origins answering from a
redirect table, an independent RFC 3986 reference resolver, a reference walker and
the runner that records per-origin request logs."""
from __future__ import annotations

import copy
import re

from simkit import harness as H
from simkit import peers as P
from simkit import tls as T
from simkit import world as W

CONTENT_HEADERS = {"content-encoding", "content-language", "content-location", "content-type", "content-length", "digest", "last-modified"}
DEFAULT_PORT = {"http": 80, "https": 443}
PROXY = "http://proxy.test:3128"


# ----------------------------------------------------------------------------- RFC 3986 reference


_URI = re.compile(r"^(?:([A-Za-z][A-Za-z0-9+.\-]*):)?(?://([^/?#]*))?([^?#]*)(?:\?([^#]*))?(?:#(.*))?$", re.S)


def split(u: str):
    m = _URI.match(u)
    return m.group(1), m.group(2), m.group(3), m.group(4), m.group(5)


def remove_dot_segments(path: str) -> str:
    out = []
    inp = path
    while inp:
        if inp.startswith("../"):
            inp = inp[3:]
        elif inp.startswith("./"):
            inp = inp[2:]
        elif inp.startswith("/./"):
            inp = inp[2:]
        elif inp == "/.":
            inp = "/"
        elif inp.startswith("/../"):
            inp = inp[3:]
            if out:
                out.pop()
        elif inp == "/..":
            inp = "/"
            if out:
                out.pop()
        elif inp in (".", ".."):
            inp = ""
        else:
            i = inp.find("/", 1)
            if i < 0:
                out.append(inp)
                inp = ""
            else:
                out.append(inp[:i])
                inp = inp[i:]
    return "".join(out)


def resolve(base: str, ref: str) -> str:
    """RFC 3986 section 5.2.2 (strict)."""
    bs, ba, bp, bq, _ = split(base)
    rs, ra, rp, rq, rf = split(ref)
    if rs is not None:
        ts, ta, tp, tq = rs, ra, remove_dot_segments(rp), rq
    else:
        if ra is not None:
            ta, tp, tq = ra, remove_dot_segments(rp), rq
        else:
            if rp == "":
                tp = bp
                tq = rq if rq is not None else bq
            else:
                if rp.startswith("/"):
                    tp = remove_dot_segments(rp)
                else:
                    if ba is not None and bp == "":
                        merged = "/" + rp
                    else:
                        merged = bp[: bp.rfind("/") + 1] + rp
                    tp = remove_dot_segments(merged)
                tq = rq
            ta = ba
        ts = bs
    out = ""
    if ts is not None:
        out += ts + ":"
    if ta is not None:
        out += "//" + ta
    out += tp
    if tq is not None:
        out += "?" + tq
    if rf is not None:
        out += "#" + rf
    return out


def origin_of(url: str) -> str:
    s, a, p, q, f = split(url)
    s = (s or "http").lower()
    host, _, port = (a or "").rpartition("@")[2].partition(":")
    port = int(port) if port else DEFAULT_PORT[s]
    o = f"{s}://{host.lower()}"
    if port != DEFAULT_PORT[s]:
        o += f":{port}"
    return o


def target_of(url: str) -> str:
    s, a, p, q, f = split(url)
    t = p or "/"
    if q is not None:
        t += "?" + q
    return t


def node_of(url: str) -> str:
    return origin_of(url) + "|" + target_of(url)


# ----------------------------------------------------------------------------- policy


def hop_budget(policy, redirect_kw) -> tuple[int | None, bool]:
    """(maximum number of redirects that may be followed, raise_on_redirect) for
    the policy in effect.  policy is the JSON spec: 'unset'/None -> library default."""
    if redirect_kw is False:
        return 0, False
    if policy in ("unset", None):
        # the library default, whatever it is (today Retry(3): redirects consume `total`) -- read, not assumed
        from urllib3.util.retry import Retry

        d = Retry.DEFAULT
        policy = {"total": d.total, "redirect": d.redirect, "raise_on_redirect": d.raise_on_redirect}
    if policy is False:
        return 0, False
    if isinstance(policy, int):
        return max(policy, 0), True
    total = policy.get("total", 10)
    red = policy.get("redirect", None)
    ror = policy.get("raise_on_redirect", True)
    if total is False or red is False:
        return 0, False
    bounds = [b for b in (total, red) if b is not None]
    return (max(min(bounds), 0) if bounds else None), ror


def removal_set(policy) -> set[str]:
    if isinstance(policy, dict) and "remove_headers_on_redirect" in policy:
        return {h.lower() for h in policy["remove_headers_on_redirect"]}
    return {"cookie", "authorization", "proxy-authorization"}


# ----------------------------------------------------------------------------- world


def build_world(sc: dict) -> W.World:
    w = W.World(sc)
    web = sc["web"]
    cfg = sc["config"]

    def responder(world, peer, req):
        if peer.role == "proxy":
            url = req.target
            key = node_of(url) if "://" in url else None
        else:
            key = peer.name + "|" + req.target
        ent = web.get(key) if key else None
        req_origin = key.split("|")[0] if key else "?"
        log = world.tags.setdefault("log", [])
        log.append((req_origin, req))
        # fault dimension: the first `fail_first` visits of a node lose the connection instead of being answered
        ff = (sc.get("faults") or {}).get(key) if key else None
        if ff:
            seen = world.tags.setdefault("visits", {})
            seen[key] = seen.get(key, 0) + 1
            if seen[key] <= int(ff.get("n", 1)):
                world.tags.setdefault("failed_idx", set()).add(len(log) - 1)
                world.faults_fired["exchange:" + ff.get("kind", "eof")] += 1
                return {"k": ff.get("kind", "eof")}
        if ent is None:
            return {"k": "resp", "status": 200, "body": "final"}
        spec = {"k": "resp", "status": ent["status"], "body": "redir"}
        hdrs = []
        if ent.get("location") is not None:
            hdrs.append(["Location", ent["location"]])
        spec["headers"] = hdrs
        if ent.get("close"):
            spec["keepalive"] = False
        return spec

    w.responder = responder
    if cfg["entry"] == "proxy":
        w.default_listener = H.origin_factory("proxy", "proxy")
    else:
        def factory(world, chan):
            ip, port = chan.peer_addr[0], chan.peer_addr[1]
            host = world.tags.get("rdns", {}).get(ip, ip)
            if port == 443:
                name = f"https://{host}"
                return T.TlsPeer(world, chan, lambda w_, c: P.HttpPeer(w_, c, name, "origin", True), cert="any", name=name)
            name = f"http://{host}" + ("" if port == 80 else f":{port}")
            return P.HttpPeer(world, chan, name, "origin")

        w.default_listener = factory
        orig_resolve = w.resolve

        def resolve_(host):
            ips = orig_resolve(host)
            for ip in ips:
                w.tags.setdefault("rdns", {})[ip] = host.lower().rstrip(".")
            return ips

        w.resolve = resolve_
    return w


def mk_headers(cfg):
    hdrs = cfg.get("headers")
    if hdrs is None:
        return None
    cont = cfg.get("hdr_container", "dict")
    if cont == "hhd":
        from urllib3._collections import HTTPHeaderDict

        h = HTTPHeaderDict()
        for k, v in hdrs:
            h.add(k, v)
        return h
    return {k: v for k, v in hdrs}


def run_web(sc: dict):
    """Drive one request through the entry point.  Returns (world, outcome, log)
    where log = [(origin, Req)] in wire order."""
    cfg = sc["config"]
    urllib3 = H.u3()
    w = build_world(sc)
    outcome = None
    with w:
        pol = cfg.get("policy", "unset")
        ctor_kw, req_kw = {}, {}
        if pol != "unset":
            (ctor_kw if cfg.get("placement") == "ctor" else req_kw)["retries"] = H.mk_retry(pol)
        if cfg.get("req_none") and cfg.get("placement") == "ctor":
            req_kw["retries"] = None  # explicit None on the request: the constructor's policy stays in effect
        if cfg.get("ctor_policy", "unset") != "unset" and cfg.get("placement") != "ctor" and pol not in ("unset", None):
            ctor_kw["retries"] = H.mk_retry(cfg["ctor_policy"])  # overridden outright by the request's
        if cfg.get("redirect_kw", "unset") != "unset":
            req_kw["redirect"] = cfg["redirect_kw"]
        hdrs = mk_headers(cfg)
        if hdrs is not None:
            if cfg.get("hdr_container") == "manager_default":
                ctor_kw["headers"] = hdrs
            else:
                req_kw["headers"] = hdrs
        body, _raw = H.mk_body(cfg.get("body"))
        if body is not None:
            req_kw["body"] = body
        start = cfg["start"]
        try:
            # ("call": "urlopen" -- the manager's urlopen() called directly, so that a request without a headers argument really
            #  arrives there without one and the manager's defaults are filled in by urlopen itself)
            if cfg["entry"] == "pm":
                obj = urllib3.PoolManager(ca_certs=T.CA_GOOD, timeout=5.0, **ctor_kw)
                r = (obj.urlopen if cfg.get("call") == "urlopen" else obj.request)(cfg["method"], start, **req_kw)
            elif cfg["entry"] == "proxy":
                obj = urllib3.ProxyManager(PROXY, timeout=5.0, **ctor_kw)
                r = (obj.urlopen if cfg.get("call") == "urlopen" else obj.request)(cfg["method"], start, **req_kw)
            else:
                s, a, p, q, f = split(start)
                host, _, port = a.partition(":")
                if cfg.get("pool_via") == "pool_kwargs":
                    mgr = urllib3.PoolManager(timeout=5.0)
                    obj = mgr.connection_from_url(origin_of(start), pool_kwargs=dict(ctor_kw))
                    w.tags["keepalive_mgr"] = mgr
                else:
                    obj = urllib3.HTTPConnectionPool(host, int(port) if port else 80, timeout=5.0, **ctor_kw)
                r = obj.request(cfg["method"], target_of(start), **req_kw)
            outcome = ("response", r.status, r)
        except (W.SimHang, W.StepLimit) as e:
            outcome = ("limit", str(e), None)
        except Exception as e:
            H.strip_tb(e)
            outcome = ("exc", e, None)
        if cfg.get("then") and cfg["entry"] in ("pm", "proxy") and outcome[0] != "limit":
            # a second request through the very same manager (same headers, same policy), starting somewhere else
            w.tags["split"] = len(w.tags.get("log", []))
            try:
                r2 = obj.request(cfg["method"], cfg["then"]["start"], **req_kw)
                w.tags["outcome2"] = ("response", r2.status)
            except (W.SimHang, W.StepLimit) as e:
                w.tags["outcome2"] = ("limit", str(e))
            except Exception as e:
                H.strip_tb(e)
                w.tags["outcome2"] = ("exc", e)
    return w, outcome, list(w.tags.get("log", []))


# ----------------------------------------------------------------------------- reference walker


def walk(sc: dict):
    """Ideal hop list for a PoolManager/ProxyManager: [(origin, method, target, has_body, absolute_url)],
    plus the terminal expectation, under the policy in effect."""
    cfg = sc["config"]
    web = sc["web"]
    budget, ror = hop_budget(cfg.get("policy", "unset"), cfg.get("redirect_kw", "unset"))
    url = cfg["start"]
    method = cfg["method"]
    has_body = cfg.get("body") is not None
    hops = []
    followed = 0
    terminal = None
    for _ in range(40):
        hops.append({"origin": origin_of(url), "method": method, "target": target_of(url), "has_body": has_body, "url": url})
        ent = web.get(node_of(url))
        if ent is None:
            terminal = ("response", 200)
            break
        st, loc = ent["status"], ent.get("location")
        if st not in (301, 302, 303, 307, 308) or not loc:
            terminal = ("response", st)
            break
        if budget is not None and followed >= budget:
            terminal = ("exhausted", st)
            break
        if st == 303:
            method, has_body = "GET", False
        url = resolve(url, loc)
        s, a, p, q, f = split(url)
        if f is not None:
            url = url[: url.index("#")]
        followed += 1
    return hops, terminal, budget, ror


def shrink_web(sc):
    for key in list(sc["web"]):
        c = copy.deepcopy(sc)
        del c["web"][key]
        yield c
    for key in list(sc.get("faults") or {}):
        c = copy.deepcopy(sc)
        del c["faults"][key]
        yield c
    cfg = sc["config"]
    if cfg.get("headers"):
        for i in range(len(cfg["headers"])):
            c = copy.deepcopy(sc)
            del c["config"]["headers"][i]
            yield c
    for fld, simple in (("body", None), ("method", "GET"), ("hdr_container", "dict"), ("redirect_kw", "unset"), ("placement", "request"), ("req_none", None), ("ctor_policy", "unset"), ("call", None), ("pool_via", None)):
        if cfg.get(fld, simple) != simple:
            c = copy.deepcopy(sc)
            c["config"][fld] = simple
            yield c
    for key, ent in sc["web"].items():
        if ent["status"] != 302:
            c = copy.deepcopy(sc)
            c["web"][key]["status"] = 302
            yield c
