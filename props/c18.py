"""C18 -- connections are never shared across differing connection settings.
Engine: simnet.  The keyword list comes from inspect.signature of the pool and
connection constructors at run time; what is observed is which simulated socket
carried which request, and what reached the socket/TLS seams."""
from __future__ import annotations

import copy
import inspect
import ssl

from simkit import harness as H
from simkit import peers as P
from simkit import tls as T
from simkit import world as W
from simkit.runner import Result, rng_for, stable_hash

ID = "C18"
ENGINE = "simnet"
LEVEL = "exploration"
TECHNIQUE = "deterministic network simulation of A/B/A request histories through one PoolManager, one keyword apart (keywords derived from the constructor signatures); per-socket request logs and seam observations"
LEVEL_TEXT = (
    "For every keyword the pool and connection constructors accept (derived at run time) and two distinct values: request under context A, under B, under A again through one "
    "PoolManager (B supplied by pool_kwargs or both by constructor defaults), on http and https, optionally with an LRU eviction, an idle close or a case/default-port respelling in "
    "between; the simulated network shows which socket carried which request and which settings reached the socket/TLS seams. Contexts differing by keyword-not-given vs a falsy but meaningful value (ssl.CERT_NONE, assert_hostname=False, retries=False/0, socket_options=[]) are part of the grid. The keyword x scheme x mode grid is enumerated."
)
LEVEL_NOTE = "trusted: the value table for known keywords (unknown keywords get generic values and must be rejected or separate); observation of settings limited to what reaches a seam (bind, socket options, timeouts, TLS wrap arguments)"
N = {"quick": 1200, "thorough": 9000}
BUDGET = {"quick": 45, "thorough": 300}
RULE = "index k -> (keyword, scheme, supply mode, in-between event, URL respelling) by enumeration of the grid then seeded repetition. Non-trivial = the keyword was accepted; distinct = distinct (keyword, scheme, mode, event, respelling)."
ASSUMPTIONS = ["a keyword that raises TypeError (at pool creation or at the first request, before any I/O) counts as rejected"]
REQUIRED_PROBES = {"quick": ["separate_pools", "unset_vs_falsy", "via_proxy_manager", "redirect_to_other_host_followed", "defaults_around_override_ok", "headers_as_httpheaderdict", "retry_objects_one_field_apart", "default_removed_per_request", "rejected_keyword", "same_context_shared", "respelled_url_shared", "defaults_unchanged", "evicted_then_A", "seam:source_address", "seam:timeout", "seam:tls"], "thorough": ["separate_pools", "unset_vs_falsy", "via_proxy_manager", "redirect_to_other_host_followed", "defaults_around_override_ok", "headers_as_httpheaderdict", "retry_objects_one_field_apart", "default_removed_per_request", "rejected_keyword", "same_context_shared", "respelled_url_shared", "defaults_unchanged", "evicted_then_A", "seam:source_address", "seam:timeout", "seam:tls"]}


def keywords():
    urllib3 = H.u3()
    from urllib3.connection import HTTPConnection, HTTPSConnection

    ks = []
    for c in (urllib3.HTTPConnectionPool, urllib3.HTTPSConnectionPool, HTTPConnection, HTTPSConnection):
        for n, p in inspect.signature(c.__init__).parameters.items():
            if n in ("self", "host", "port") or p.kind in (p.VAR_KEYWORD, p.VAR_POSITIONAL):
                continue
            if n not in ks:
                ks.append(n)
    return sorted(ks)


def values(kw: str):
    """Two distinct values (as thunks, so objects are fresh per run)."""
    from urllib3.util.retry import Retry
    from urllib3.util.timeout import Timeout
    from urllib3.util.url import parse_url

    def ctx(ca):
        def f():
            from urllib3.util.ssl_ import create_urllib3_context

            c = create_urllib3_context()
            c.load_verify_locations(ca)
            return c

        return f

    table = {
        "timeout": (lambda: 4.0, lambda: 9.0),
        "maxsize": (lambda: 1, lambda: 2),
        "block": (lambda: False, lambda: True),
        "headers": (lambda: {"X-Ctx": "a"}, lambda: {"X-Ctx": "b"}),
        "retries": (lambda: 1, lambda: 2),
        "source_address": (lambda: ("10.9.9.1", 0), lambda: ("10.9.9.2", 0)),
        "socket_options": (lambda: [(6, 1, 1)], lambda: [(6, 1, 1), (1, 9, 1)]),
        "blocksize": (lambda: 8192, lambda: 4096),
        "key_file": (lambda: T.pki("client.pem"), lambda: T.pki("bad_client.pem")),
        "cert_file": (lambda: T.pki("client.pem"), lambda: T.pki("bad_client.pem")),
        "key_password": (lambda: "pw-a", lambda: "pw-b"),
        "cert_reqs": (lambda: "CERT_REQUIRED", lambda: "CERT_NONE"),
        "ca_certs": (lambda: T.CA_GOOD, lambda: T.pki("ca_both.pem")),
        "ca_cert_data": (lambda: open(T.CA_GOOD).read(), lambda: open(T.pki("ca_both.pem")).read()),
        "ca_cert_dir": (lambda: None, lambda: T.PKI),
        "ssl_version": (lambda: None, lambda: ssl.PROTOCOL_TLS_CLIENT),
        "ssl_minimum_version": (lambda: ssl.TLSVersion.TLSv1_2, lambda: ssl.TLSVersion.TLSv1_3),
        "ssl_maximum_version": (lambda: ssl.TLSVersion.TLSv1_3, lambda: ssl.TLSVersion.TLSv1_2),
        "ssl_context": (ctx(T.CA_GOOD), ctx(T.pki("ca_both.pem"))),
        "assert_hostname": (lambda: "h.test", lambda: False),
        "assert_fingerprint": (lambda: None, lambda: __import__("hashlib").sha256(T.der("any")).hexdigest()),
        "server_hostname": (lambda: "h.test", lambda: "a.test"),
        "_proxy": (lambda: None, lambda: parse_url("http://proxy.test:3128")),
        "_proxy_headers": (lambda: {"X-P": "a"}, lambda: {"X-P": "b"}),
        "_proxy_config": (lambda: None, lambda: __import__("urllib3").connection.ProxyConfig(None, False, None, None)),
    }
    if kw in table:
        return table[kw]
    return (lambda: "value-A", lambda: "value-B")


RETRY_FIELDS = {
    "total": (3, 4), "connect": (1, 2), "read": (1, 2), "redirect": (1, 2), "status": (1, 2), "other": (1, 2),
    "allowed_methods": (["GET"], ["GET", "POST"]), "status_forcelist": ([500], [503]), "backoff_factor": (0.1, 0.2), "backoff_max": (60, 61),
    "raise_on_redirect": (True, False), "raise_on_status": (True, False), "respect_retry_after_header": (True, False),
    "remove_headers_on_redirect": (["Authorization"], []), "backoff_jitter": (0.0, 0.5),
}
REMOVABLE = ["source_address", "socket_options", "timeout", "cert_reqs", "server_hostname"]


class _Unset:
    def __repr__(self):
        return "<not given>"


UNSET = _Unset()


def falsy_values(kw: str):
    """Values that are falsy in Python yet mean something else than leaving the keyword out."""
    return {
        "cert_reqs": [lambda: ssl.CERT_NONE],  # IntEnum 0; default is CERT_REQUIRED
        "assert_hostname": [lambda: False],  # default: the name is matched
        "retries": [lambda: False, lambda: 0],  # default: Retry(3)
        "socket_options": [lambda: []],  # default: TCP_NODELAY
    }.get(kw, [])


FALSY_KWS = ["cert_reqs", "assert_hostname", "retries", "socket_options"]
MODES = ["pool_kwargs", "ctor_default_A"]
# "redirect": a request answered by a redirect whose Location names another host without a scheme (//other.test/...): the follow-up
# belongs to another origin and must not travel on this origin's pool
EVENTS = ["none", "evict", "idle_close", "respell", "redirect"]
CTX_SENSITIVE = ["cert_reqs", "assert_hostname", "assert_fingerprint", "server_hostname", "key_password", "cert_file", "key_file", "ssl_minimum_version", "ssl_maximum_version"]


def cases(seed, k, tier):
    ks = keywords()
    grid = [(kw, scheme, mode, ev, None) for kw in ks for scheme in ("http", "https") for mode in MODES for ev in EVENTS]
    # the same contexts, supplied as pool_kwargs through a ProxyManager whose forwarded (plain http) destinations all end at the proxy
    grid += [(kw, "http", "proxy_pool_kwargs", ev, None) for kw in ks if not kw.startswith("_proxy") for ev in EVENTS]
    # contexts that differ by "keyword not given" vs "keyword given with a falsy but meaningful value"
    grid += [(kw, scheme, mode, ev, i) for kw in FALSY_KWS if kw in ks for i in range(len(falsy_values(kw))) for scheme in ("http", "https") for mode in MODES for ev in EVENTS]
    # the same keyword given in another container type (default headers as an HTTPHeaderDict instead of a dict)
    grid += [("headers", scheme, mode, ev, "hhd") for scheme in ("http", "https") for mode in MODES + ["proxy_pool_kwargs"] for ev in EVENTS if not (mode == "proxy_pool_kwargs" and scheme == "https")]
    # two Retry objects that differ in exactly one constructor field (Retry is part of the pool's identity as an object)
    grid += [("retries", "http", mode, "none", "retry:" + f) for f in RETRY_FIELDS for mode in MODES]
    # a constructor default removed again for one request (pool_kwargs={kw: None}): the pool must be built without it
    grid += [(kw, scheme, "ctor_default_A", ev, "remove") for kw in REMOVABLE for scheme in ("http", "https") for ev in ("none", "evict") if not (kw in ("cert_reqs", "server_hostname") and scheme == "http")]
    # the TLS keywords once more with a caller-supplied ssl_context among the settings both contexts share (so that a pair differs in
    # exactly one keyword *given* another one): verify_mode, names and pins are applied to a caller's context too
    grid += [(kw, "https", mode, ev, "ctx") for kw in CTX_SENSITIVE if kw in ks for mode in MODES for ev in ("none", "evict")]
    rng = rng_for(seed, ID, k)
    if k < len(grid):
        kw, scheme, mode, ev, fi = grid[k]
    else:
        kw, scheme, mode, ev, fi = rng.choice(grid)
    sc = {"property": ID, "kw": kw, "scheme": scheme, "mode": mode, "event": ev, "flip": rng.random() < 0.5 if k >= len(grid) else False}
    if isinstance(fi, str):
        sc["flavour"] = fi
    elif fi is not None:
        sc["falsy"] = fi
    yield sc


def run(sc: dict) -> Result:
    res = Result()
    urllib3 = H.u3()
    kw, scheme, mode, ev = sc["kw"], sc["scheme"], sc["mode"], sc["event"]
    va, vb = values(kw)
    fl = sc.get("flavour") or ""
    if fl.startswith("retry:"):
        from urllib3.util.retry import Retry

        f_ = fl[6:]
        x, y = RETRY_FIELDS[f_]
        va, vb = (lambda: Retry(**{f_: x})), (lambda: Retry(**{f_: y}))
        res.probes["retry_objects_one_field_apart"] += 1
    elif fl == "remove":
        vb = lambda: None  # noqa: E731
        if kw == "cert_reqs":
            va = lambda: "CERT_NONE"  # noqa: E731
        res.probes["default_removed_per_request"] += 1
    if sc.get("flavour") == "hhd":
        from urllib3._collections import HTTPHeaderDict

        va, vb = (lambda: HTTPHeaderDict({"X-Ctx": "a"})), (lambda: HTTPHeaderDict({"X-Ctx": "b"}))
        res.probes["headers_as_httpheaderdict"] += 1
    if sc.get("falsy") is not None:
        va, vb = (lambda: UNSET), falsy_values(kw)[sc["falsy"]]
        res.probes["unset_vs_falsy"] += 1
    # (with a constructor default, "not given" on the request means that default: the unset side must be the constructor's)
    # (likewise a removal -- pool_kwargs={kw: None} -- only means "removed" on the request side)
    if sc.get("flip") and not (sc.get("falsy") is not None and mode == "ctor_default_A") and sc.get("flavour") != "remove":
        va, vb = vb, va
    w = W.World({})

    def factory(world, chan):
        port = chan.peer_addr[1]
        if port in (443,):
            return T.TlsPeer(world, chan, lambda w_, c: P.HttpPeer(w_, c, "origin", "origin", True), cert="any", name="origin")
        if port == 3128:
            return P.HttpPeer(world, chan, "proxy", "proxy")
        return P.HttpPeer(world, chan, "origin", "origin")

    w.default_listener = factory
    w.responder = lambda world, peer, req: ({"k": "resp", "status": 302, "headers": [["Location", "//other.test/ctxR"]], "body": ""} if req.target.endswith("/redir") else None)
    w.tunnel_factory = lambda w_, chan, target: T.TlsPeer(w_, chan, lambda w2, c: P.HttpPeer(w2, c, "origin", "origin", True), cert="any", name="origin")
    base = f"{scheme}://h.test"
    respelled = f"{scheme.upper()}://H.Test:{443 if scheme == 'https' else 80}"
    with H.RunEnv(), H.quiet_warnings(), w:
        A, B_ = va(), vb()
        common = {"ca_certs": T.CA_GOOD} if (scheme == "https" and kw not in ("ca_certs", "ca_cert_data", "ssl_context", "ca_cert_dir")) else {}
        if scheme == "https" and kw in ("ca_cert_dir",):
            common = {"ca_certs": T.CA_GOOD}
        if sc.get("flavour") == "ctx" and scheme == "https":
            common = {"ssl_context": values("ssl_context")[0]()}
            res.probes["shared_caller_context_in_both"] += 1
        rejected = None
        log = []  # (context label, pool object, outcome)

        def do(pm, label, value, use_kwargs, url_base=base):
            nonlocal rejected
            try:
                if use_kwargs and value is not UNSET:
                    pool = pm.connection_from_url(url_base + "/", pool_kwargs={kw: value})
                else:
                    pool = pm.connection_from_url(url_base + "/")
                r = pool.request("GET", f"/ctx{label}", retries=False)
                log.append((label, pool, ("ok", r.status)))
            except TypeError as e:
                if not any(s.sent for s in w.sockets if (s.peer_addr or (0, 0))[1] != 3128) or True:
                    rejected = rejected or repr(e)
                log.append((label, None, ("typeerror", e)))
            except (W.SimHang, W.StepLimit) as e:
                res.bad("hang", str(e))
                log.append((label, None, ("hang", e)))
            except Exception as e:
                H.strip_tb(e)
                log.append((label, locals().get("pool"), ("exc", e)))

        try:
            if mode == "proxy_pool_kwargs":
                res.probes["via_proxy_manager"] += 1
                pm = urllib3.ProxyManager("http://proxy.test:3128", num_pools=1 if ev == "evict" else 10, **({"timeout": 3.0} if kw != "timeout" else {}))
                defaults_before = copy.copy(pm.connection_pool_kw)
                do(pm, "D", UNSET, True)  # the manager's own defaults, before ...
                do(pm, "A", A, True)
                do(pm, "B", B_, True)
                do(pm, "D", UNSET, True)  # ... and after the overrides
            elif mode == "pool_kwargs":
                pm = urllib3.PoolManager(num_pools=1 if ev == "evict" else 10, timeout=3.0 if kw != "timeout" else None, **common) if kw != "timeout" else urllib3.PoolManager(num_pools=1 if ev == "evict" else 10, **common)
                defaults_before = copy.copy(pm.connection_pool_kw)
                do(pm, "A", A, True)
                do(pm, "B", B_, True)
            else:
                pm = urllib3.PoolManager(num_pools=1 if ev == "evict" else 10, **dict(common, **({kw: A} if A is not UNSET else {})))
                defaults_before = copy.copy(pm.connection_pool_kw)
                do(pm, "A", A, False)
                do(pm, "B", B_, True)
        except TypeError as e:
            rejected = repr(e)
            pm = None
        if pm is not None:
            if ev == "evict":
                do(pm, "X", A, mode != "ctor_default_A", url_base=f"{scheme}://other.test")
            elif ev == "idle_close":
                w.advance(100.0)
            elif ev == "redirect" and scheme == "http" and mode != "proxy_pool_kwargs":
                try:
                    pm.request("GET", base + "/redir", retries=2)
                    res.probes["redirect_to_other_host_followed"] += 1
                except Exception as e:
                    H.strip_tb(e)
            if ev == "respell":
                do(pm, "A", A, mode != "ctor_default_A", url_base=respelled)
            else:
                do(pm, "A", A, mode != "ctor_default_A")
            # ---- manager defaults untouched by per-request overrides
            after = pm.connection_pool_kw
            if set(after) != set(defaults_before) or any(after[k_] is not defaults_before[k_] and after[k_] != defaults_before[k_] for k_ in after):
                res.bad("manager_defaults_changed", f"{defaults_before!r} -> {after!r}")
            else:
                res.probes["defaults_unchanged"] += 1
        # ---- which socket carried which context
        if rejected is not None and not any(q.target.startswith("/ctx") for q in w.requests):
            res.probes["rejected_keyword"] += 1
        else:
            by_sock = {}
            for q in w.requests:
                if q.target.startswith("/ctx") or "/ctx" in q.target:
                    lab = q.target[q.target.index("/ctx") + 4]
                    by_sock.setdefault(q.sid, set()).add(lab)
            dpools = [p for l_, p, o in log if l_ == "D" and p is not None]
            if len(dpools) == 2:
                # (an override whose value is None says the same as leaving the keyword out)
                others = [p for l_, p, o in log if l_ in ("A", "B") and p is not None and (A if l_ == "A" else B_) is not None]
                if dpools[0] is not dpools[1] and ev != "evict":
                    res.bad("same_context_different_pools", f"the manager's default context got two different pools around an override of {kw}")
                elif any(dp is op for dp in dpools for op in others):
                    res.bad("pool_shared_across_settings", f"a request under the manager's defaults was served by the pool created for an override of {kw}")
                else:
                    res.probes["defaults_around_override_ok"] += 1
            for sid, labs in by_sock.items():
                if "D" in labs and ((("A" in labs) and A is not None) or (("B" in labs) and B_ is not None)):
                    res.bad("connection_shared_across_settings", f"socket {sid} carried a request under the manager's defaults and one under an override of {kw}")
                if "R" in labs and (labs & {"A", "B"}):
                    res.bad("connection_shared_across_hosts", f"socket {sid} carried requests for h.test and the redirected request for other.test")
                if "A" in labs and "B" in labs:
                    res.bad("connection_shared_across_settings", f"socket {sid} carried requests made under {kw}={A!r} and under {kw}={B_!r}")
            pools = {lab: [p for l_, p, o in log if l_ == lab and p is not None] for lab in ("A", "B")}
            if pools["A"] and pools["B"]:
                if any(pa is pb for pa in pools["A"] for pb in pools["B"]):
                    res.bad("pool_shared_across_settings", f"one pool object serves {kw}={A!r} and {kw}={B_!r}")
                else:
                    res.probes["separate_pools"] += 1
            if len(pools["A"]) == 2 and ev in ("none", "idle_close", "respell"):
                if pools["A"][0] is not pools["A"][1]:
                    res.bad("same_context_different_pools", f"two requests under the identical context {kw}={A!r} ({ev}) got different pools")
                else:
                    res.probes["same_context_shared" if ev != "respell" else "respelled_url_shared"] += 1
                    a_socks = [q.sid for q in w.requests if "/ctxA" in q.target]
                    if ev == "none" and len(a_socks) == 2 and a_socks[0] != a_socks[1] and all(o[0] == "ok" for l_, p, o in log if l_ == "A"):
                        res.probes["same_context_new_socket"] += 1
            if ev == "evict" and len(pools["A"]) == 2:
                res.probes["evicted_then_A"] += 1
            # ---- settings that reached the seams belong to the context of the request they served
            check_seams(kw, A, B_, w, res)
        try:
            if pm is not None:
                pm.clear()
        except Exception:
            pass
        res.digest = w.digest() if scheme == "http" else stable_hash([(q.peer, q.target, q.sid) for q in w.requests])
        res.trace = hash((kw, scheme, mode, ev, sc.get("flip")))
        res.nontrivial = rejected is None
        res.sim_s = w.now - W.VClock.START
        res.steps = w.io_step
    return res


def check_seams(kw, A, B_, w, res):
    sock_ctx = {}
    for q in w.requests:
        if "/ctx" in q.target:
            sock_ctx[q.sid] = q.target[q.target.index("/ctx") + 4]
    for s in w.sockets:
        lab = sock_ctx.get(s.sid)
        if lab not in ("A", "B"):
            continue
        want = A if lab == "A" else B_
        if want is None and kw in REMOVABLE:
            want = UNSET  # removed again: as if never given
        if want is UNSET and kw == "source_address":
            if s.bound is not None:
                res.bad("setting_not_applied", f"socket {s.sid} served context {lab} (no source_address) but was bound to {s.bound}")
            continue
        if want is UNSET and kw == "timeout":
            tos = [t for op, t in s.timeouts_at_io if op == "connect"]
            if tos and tos[0] is not None:
                res.bad("setting_not_applied", f"socket {s.sid} served context {lab} (no timeout) but connected with timeout {tos[0]}")
            continue
        if want is UNSET:
            if kw == "socket_options":
                from urllib3.connection import HTTPConnection

                want = list(HTTPConnection.default_socket_options)
            else:
                continue
        if kw == "source_address":
            res.probes["seam:source_address"] += 1
            if s.bound != tuple(want):
                res.bad("setting_not_applied", f"socket {s.sid} served context {lab} but was bound to {s.bound}, context says {want}")
        elif kw == "socket_options":
            if [tuple(o) for o in s.options] != [tuple(o) for o in want]:
                res.bad("setting_not_applied", f"socket {s.sid} (context {lab}) got options {s.options}, context says {want}")
        elif kw == "timeout":
            res.probes["seam:timeout"] += 1
            tos = [t for op, t in s.timeouts_at_io if op == "connect"]
            if tos and (tos[0] is None or abs(tos[0] - float(want)) > 1e-9):
                res.bad("setting_not_applied", f"socket {s.sid} (context {lab}) connected with timeout {tos[0]}, context says {want}")
    for t in w.tls_log:
        if t[0] != "client_wrap":
            continue
        lab = sock_ctx.get(t[1])
        if lab not in ("A", "B"):
            continue
        want = A if lab == "A" else B_
        if want is None and kw in REMOVABLE:
            want = UNSET
        if want is UNSET and kw == "server_hostname":
            if t[2] not in ("h.test", "H.Test".lower()):
                res.bad("setting_not_applied", f"TLS wrap on socket {t[1]} (context {lab}, no server_hostname) used {t[2]!r}")
            continue
        if want is UNSET:
            want = {"cert_reqs": "CERT_REQUIRED"}.get(kw, UNSET)
        elif kw == "cert_reqs" and not isinstance(want, str):
            want = {0: "CERT_NONE", 1: "CERT_OPTIONAL", 2: "CERT_REQUIRED"}[int(want)]
        res.probes["seam:tls"] += 1
        if kw == "server_hostname" and t[2] != want:
            res.bad("setting_not_applied", f"TLS wrap on socket {t[1]} (context {lab}) used server_hostname {t[2]!r}, context says {want!r}")
        if kw == "cert_reqs":
            vm = {"CERT_REQUIRED": 2, "CERT_NONE": 0, "CERT_OPTIONAL": 1}[want]
            if t[3] != vm:
                res.bad("setting_not_applied", f"TLS wrap on socket {t[1]} (context {lab}) used verify_mode {t[3]}, context says {want}")


def shrinks(sc):
    for fld, simple in (("event", "none"), ("mode", "pool_kwargs"), ("scheme", "http"), ("flip", False)):
        if fld == "scheme" and sc["kw"] in ("cert_reqs", "assert_hostname") and sc.get("falsy") is not None:
            continue
        if sc.get(fld) != simple:
            c = copy.deepcopy(sc)
            c[fld] = simple
            yield c


KNOWN = {}
