"""C17 -- the pool cache is bounded, consistent, and never leaks an evicted pool.
Engine: simsched.  (i) RecentlyUsedContainer under seeded interleavings, judged by a
linearizability search against a sequential LRU model with per-operation dispose
attribution; (ii) PoolManager with tiny num_pools over simnet."""
from __future__ import annotations

import copy
from collections import OrderedDict

from simkit import harness as H
from simkit import sched as S
from simkit import sync
from simkit import world as W
from simkit.runner import Result, rng_for, stable_hash

ID = "C17"
ENGINE = "simsched"
LEVEL = "exploration"
TECHNIQUE = "deterministic thread scheduling of container/PoolManager operations; Wing-Gong linearizability search against a sequential LRU model (results and disposed values per operation), socket conservation on the simulated network"
LEVEL_TEXT = (
    "(i) 1-3 tasks x up to 8 operations get/set/delete/clear/len/keys over 4 keys on RecentlyUsedContainer(maxsize 0-3) with a recording dispose callback and a simulated re-entrant "
    "lock, pre-empted at every line of _collections.py: each recorded history (invoke/return stamped with the global event number) must linearize against a sequential LRU model, "
    "dispose exactly once per evicted/replaced/deleted/cleared value and never under the lock. (ii) 2-3 tasks doing connection_from_url/request/clear on PoolManager(num_pools 1-2) "
    "over the simulated network, some holding a streaming response across an eviction. (iii) single caller, exhaustive: every operation sequence of length <= 5 (quick) / <= 6 (thorough) over the "
    "15-operation alphabet and maxsize 0-3 is run against the model operation by operation. Sampling of interleavings; histories kept short so the search is exact."
)
LEVEL_NOTE = "trusted: the sequential LRU model and the linearizability search in this module; SimRLock semantics (= threading.RLock for acquire/release); line-granularity pre-emption"
N = {"quick": 40000, "thorough": 600000}
BUDGET = {"quick": 55, "thorough": 420}
RESAMPLE = 15
RULE = (
    "index k < 900 additionally yields one exhaustive batch (maxsize, first two operations, all continuations up to the length bound). index k -> k%5!=3: container history (tasks, ops, maxsize, schedule); k%5==3: PoolManager scenario. Non-trivial = a pre-emptive switch landed or >= 4 operations; distinct = distinct "
    "(operation scripts, maxsize, sequence of (task, location) at context switches)."
)
ASSUMPTIONS = ["values are unique per set so every observed/disposed value is attributable to one write", "PoolManager in this tree evicts without a dispose callback: evicted pools close when garbage collected; the harness calls gc.collect() at scripted points"]
REQUIRED_PROBES = {"quick": ["lru_concurrent", "lru_sequential", "lru_enumerated_sequences", "evicted", "replaced", "cleared", "pm_evicted_inflight_ok", "pm_same_pool_identity", "pm_cache_linearizable", "pm_cleared", "preempted", "lock_contended"], "thorough": ["lru_concurrent", "lru_sequential", "lru_enumerated_sequences", "evicted", "replaced", "cleared", "pm_evicted_inflight_ok", "pm_same_pool_identity", "pm_cache_linearizable", "pm_cleared", "preempted", "lock_contended"]}

KEYS = ["a", "b", "c", "d"]


def warmup():
    import urllib3
    import urllib3._collections
    import urllib3.connectionpool
    import urllib3.poolmanager

    w = W.World({})
    w.default_listener = H.origin_factory()
    with w:
        pm = urllib3.PoolManager(num_pools=1)
        pm.request("GET", "http://a.test/w").data
        pm.request("GET", "http://b.test/w").data
        pm.clear()
    S.instrument([urllib3._collections, urllib3.poolmanager, urllib3.connectionpool])


# ----------------------------------------------------------------------------- generation


def gen_schedule(rng):
    c = rng.random()
    if c < 0.55:
        return {"strategy": "uniform", "p": rng.choice([0.03, 0.1, 0.3, 0.5]), "seed": rng.randrange(1 << 30)}
    return {"strategy": "pct", "d": rng.choice([1, 2, 3]), "steps": rng.choice([60, 150, 400]), "seed": rng.randrange(1 << 30)}


def gen_lru(rng):
    ntasks = rng.choice([1, 2, 2, 3])
    total = rng.choice([3, 4, 5, 6, 8]) if ntasks > 1 else rng.choice([4, 6, 8])
    tasks = [{"name": f"T{i}", "ops": []} for i in range(ntasks)]
    serial = 0
    for j in range(total):
        t = tasks[j % ntasks] if rng.random() < 0.7 else rng.choice(tasks)
        op = rng.choice(["set", "set", "set", "get", "get", "delete", "clear", "len", "keys"])
        o = {"op": op}
        if op in ("set", "get", "delete"):
            o["key"] = rng.choice(KEYS)
        if op == "set":
            serial += 1
            o["value"] = f"v{serial}"
        t["ops"].append(o)
    tasks = [t for t in tasks if t["ops"]]
    return {"property": ID, "kind": "lru", "maxsize": rng.choice([0, 1, 1, 2, 2, 3]), "tasks": tasks, "schedule": gen_schedule(rng)}


def gen_pm(rng):
    origins = ["http://a.test", "http://b.test", "http://c.test"][: rng.choice([2, 3])]
    ntasks = rng.choice([2, 2, 3])
    tasks = []
    if rng.random() < 0.4:
        # cache-only history (lookups and clear()): every result is observable, so the manager's cache is checked for
        # linearizability against a get-or-create LRU model, final content included
        origins = origins[: rng.choice([1, 2, len(origins)])]
        for i in range(ntasks):
            ops = [({"op": "lookup", "url": rng.choice(origins) + "/"} if rng.random() < 0.7 else {"op": "clear"}) for _ in range(rng.choice([1, 2, 3]))]
            tasks.append({"name": f"T{i}", "ops": ops})
        return {"property": ID, "kind": "pm", "num_pools": rng.choice([1, 1, 2, 3]), "tasks": tasks, "schedule": gen_schedule(rng)}
    for i in range(ntasks):
        ops = []
        for j in range(rng.choice([1, 2, 3])):
            c = rng.random()
            o = rng.choice(origins)
            if c < 0.35:
                ops.append({"op": "lookup", "url": o + "/"})
            elif c < 0.7:
                ops.append({"op": "request", "url": o + f"/t{i}-{j}"})
            elif c < 0.9:
                ops.append({"op": "stream", "url": o + f"/s{i}-{j}", "hold": rng.choice([1, 2])})
            else:
                ops.append({"op": "clear"})
        tasks.append({"name": f"T{i}", "ops": ops})
    sc = {"property": ID, "kind": "pm", "num_pools": rng.choice([1, 1, 2]), "tasks": tasks, "schedule": gen_schedule(rng)}
    if rng.random() < 0.5:
        sc["pool_maxsize"] = 2
    if rng.random() < 0.35:
        # one exchange loses its connection: a discarded connection leaves a placeholder in the pool's queue, possibly on top
        # of an idle connection, before the pool is evicted, cleared or dropped
        n_before = rng.choice([0, 1, 1, 2, 3])
        sc["exchanges"] = [{"k": "resp"}] * n_before + [{"k": rng.choice(["eof", "rst"])}]
    return sc


# alphabet of the exhaustive single-caller stratum: 4 keys x (set, get, delete) + clear, len, keys = 15 operations
ALPHA = [("set", k) for k in KEYS] + [("get", k) for k in KEYS] + [("delete", k) for k in KEYS] + [("clear", None), ("len", None), ("keys", None)]
ENUM_LEN = {"quick": 5, "thorough": 6}


def cases(seed, k, tier):
    rng = rng_for(seed, ID, k)
    L = ENUM_LEN.get(tier, 4)
    n_enum = len(ALPHA) ** 2 * 4
    if k < n_enum:
        # exhaustive stratum: every operation sequence of length <= L for this (maxsize, first two operations) -- the whole
        # index range [0, 900) together is every sequence of length <= L over 4 keys for maxsize 0..3
        yield {"property": ID, "kind": "lru_enum", "maxsize": k % 4, "prefix": [k // 4 // len(ALPHA), k // 4 % len(ALPHA)], "length": L}
    yield gen_pm(rng) if k % 5 == 3 else gen_lru(rng)  # (5 is coprime to the worker count: every worker gets its share of both kinds)


def _seq_ops(idx_seq):
    ops = []
    for j, i in enumerate(idx_seq):
        kind, key = ALPHA[i]
        o = {"op": kind}
        if key is not None:
            o["key"] = key
        if kind == "set":
            o["value"] = f"v{j + 1}"
        ops.append(o)
    return ops


def _apply_real(c, op):
    k = op.get("key")
    kind = op["op"]
    try:
        if kind == "get":
            return ("val", c[k])
        if kind == "set":
            c[k] = op["value"]
            return ("none",)
        if kind == "delete":
            del c[k]
            return ("none",)
        if kind == "clear":
            c.clear()
            return ("none",)
        if kind == "len":
            return ("val", len(c))
        return ("val", tuple(sorted(c.keys())))
    except KeyError:
        return ("KeyError",)


def run_lru_enum(sc) -> Result:
    """Single caller, no scheduler: the real container against the sequential model, operation by operation, for every
    sequence that starts with the scenario's two operations and has length <= sc['length']."""
    import itertools

    from urllib3._collections import RecentlyUsedContainer

    res = Result()
    m = sc["maxsize"]
    n = 0
    first_bad = None
    explicit = sc.get("sequences")
    if explicit is not None:
        seqs = iter(explicit)
    else:
        tails = (t for L in range(0, sc["length"] - 1) for t in itertools.product(range(len(ALPHA)), repeat=L))
        seqs = (list(sc["prefix"]) + list(t) for t in tails)
    for idx_seq in seqs:
        n += 1
        disposed = []
        c = RecentlyUsedContainer(m, dispose_func=disposed.append)
        model = Model(m)
        for pos, op in enumerate(_seq_ops(idx_seq)):
            before = len(disposed)
            got = _apply_real(c, op)
            want, wd = model.apply(op)
            gd = disposed[before:]
            if got != want or sorted(gd) != sorted(wd) or len(c) > max(m, 0):
                first_bad = (list(idx_seq), pos, got, want, gd, wd)
                break
        if first_bad:
            break
    res.probes["lru_enumerated_sequences"] += n
    res.probes["lru_enum_batches"] += 1
    if first_bad:
        idx_seq, pos, got, want, gd, wd = first_bad
        ops = _seq_ops(idx_seq)
        res.info["failing_sequence"] = idx_seq
        res.bad("not_linearizable", f"single caller, maxsize {m}: after {[(o['op'], o.get('key')) for o in ops[:pos]]} the operation {(ops[pos]['op'], ops[pos].get('key'))} returned {got} disposing {gd}; the LRU model says {want} disposing {wd}")
    res.digest = stable_hash((sc["maxsize"], sc.get("prefix"), sc.get("length"), n, first_bad))
    res.trace = hash(("enum", sc["maxsize"], tuple(sc.get("prefix") or ()), sc.get("length")))
    res.nontrivial = True
    res.steps = n
    return res


# ----------------------------------------------------------------------------- sequential model + linearizability


class Model:
    def __init__(self, maxsize, od=None):
        self.maxsize = maxsize
        self.od = OrderedDict(od or ())

    def copy(self):
        return Model(self.maxsize, self.od)

    def apply(self, op):
        """-> (result, disposed list)"""
        k = op.get("key")
        kind = op["op"]
        od = self.od
        if kind == "get":
            if k not in od:
                return ("KeyError",), []
            od.move_to_end(k)
            return ("val", od[k]), []
        if kind == "set":
            if k in od:
                old = od.pop(k)
                od[k] = op["value"]
                return ("none",), [old]
            od[k] = op["value"]
            if len(od) > self.maxsize:
                _, ev = od.popitem(last=False)
                return ("none",), [ev]
            return ("none",), []
        if kind == "delete":
            if k not in od:
                return ("KeyError",), []
            return ("none",), [od.pop(k)]
        if kind == "clear":
            vals = list(od.values())
            od.clear()
            return ("none",), vals
        if kind == "len":
            return ("val", len(od)), []
        if kind == "keys":
            return ("val", tuple(sorted(od))), []
        raise ValueError(kind)


def linearizable(history, maxsize):
    """history: list of dict(op, inv, ret, result, disposed).  Wing-Gong search."""
    n = len(history)
    order = sorted(range(n), key=lambda i: history[i]["inv"])
    seen = set()

    def rec(done_mask, model):
        if done_mask == (1 << n) - 1:
            return True
        key = (done_mask, tuple(model.od.items()))
        if key in seen:
            return False
        seen.add(key)
        # minimal ops: not done, and no other not-done op returned before their invocation
        pending = [i for i in order if not done_mask & (1 << i)]
        min_ret = min(history[i]["ret"] for i in pending)
        for i in pending:
            h = history[i]
            if h["inv"] > min_ret:
                continue
            m2 = model.copy()
            r, d = m2.apply(h["op"])
            if r == h["result"] and sorted(d) == sorted(h["disposed"]) and (h["op"]["op"] != "clear" or True):
                if rec(done_mask | (1 << i), m2):
                    return True
        return False

    return rec(0, Model(maxsize))


def pm_linearizable(history, num_pools, final) -> bool:
    """PoolManager cache as a concurrent get-or-create LRU map: lookup(host) returns the cached pool or a pool never seen
    before (inserted, least recently used entry evicted beyond num_pools); clear() empties; `final` is the content once
    every task has finished.  Wing-Gong search over the recorded invoke/return intervals."""
    n = len(history)
    seen = set()

    def rec(done, state, used):
        if done == (1 << n) - 1:
            return dict(state) == final
        key = (done, tuple(state.items()), used)
        if key in seen:
            return False
        seen.add(key)
        pending = [i for i in range(n) if not done & (1 << i)]
        min_ret = min(history[i]["ret"] for i in pending)
        for i in pending:
            h = history[i]
            if h["inv"] > min_ret:
                continue
            st = OrderedDict(state)
            us = used
            if h["op"] == "clear":
                st.clear()
            else:
                k, tok = h["key"], h["result"]
                if k in st:
                    if st[k] != tok:
                        continue
                    st.move_to_end(k)
                else:
                    if tok in used:
                        continue  # a pool that had been handed out before cannot be "new"
                    us = used | {tok}
                    st[k] = tok
                    if len(st) > num_pools:
                        st.popitem(last=False)
            if rec(done | (1 << i), st, us):
                return True
        return False

    return rec(0, OrderedDict(), frozenset())


# ----------------------------------------------------------------------------- runs


def run(sc: dict) -> Result:
    if sc["kind"] == "lru_enum":
        return run_lru_enum(sc)
    return run_pm(sc) if sc["kind"] == "pm" else run_lru(sc)


def run_lru(sc) -> Result:
    from urllib3._collections import RecentlyUsedContainer

    res = Result()
    w = W.World({})
    with H.RunEnv(), w:
        sched = S.Scheduler(w, sc["schedule"])
        seq = [0]
        history = []
        current_op = {}
        dispose_count = {}
        lock = sync.SimRLock()

        def dispose(v):
            me = sched.current_task()
            dispose_count[v] = dispose_count.get(v, 0) + 1
            if lock.owner is not None and lock.owner == me:
                res.bad("dispose_under_lock", f"dispose({v}) called by {me} while it holds the container lock")
            h = current_op.get(me)
            if h is not None:
                h["disposed"].append(v)
            sched.yield_point("dispose")

        c = RecentlyUsedContainer(sc["maxsize"], dispose_func=dispose)
        c.lock = lock

        def make(task):
            def body():
                for op in task["ops"]:
                    seq[0] += 1
                    h = {"op": op, "inv": seq[0], "ret": None, "result": None, "disposed": [], "task": task["name"]}
                    current_op[task["name"]] = h
                    history.append(h)
                    try:
                        k = op.get("key")
                        kind = op["op"]
                        if kind == "get":
                            h["result"] = ("val", c[k])
                        elif kind == "set":
                            c[k] = op["value"]
                            h["result"] = ("none",)
                        elif kind == "delete":
                            del c[k]
                            h["result"] = ("none",)
                        elif kind == "clear":
                            c.clear()
                            h["result"] = ("none",)
                        elif kind == "len":
                            h["result"] = ("val", len(c))
                        elif kind == "keys":
                            h["result"] = ("val", tuple(sorted(c.keys())))
                    except KeyError:
                        h["result"] = ("KeyError",)
                    seq[0] += 1
                    h["ret"] = seq[0]
                    current_op[task["name"]] = None

            return body

        for t in sc["tasks"]:
            sched.spawn(t["name"], make(t))
        sched.run()
        for t in sched.tasks:
            if t.error is not None:
                if isinstance(t.error, (S.SimDeadlock, W.StepLimit)):
                    res.bad("deadlock" if isinstance(t.error, S.SimDeadlock) else "no_termination", f"{t.name}: {t.error}")
                else:
                    res.bad(f"operation_raised:{type(t.error).__name__}", f"{t.name}: {t.error!r:.160}")
        complete = [h for h in history if h["ret"] is not None]
        if len(complete) == len(history) and not res.violations:
            if len(c) > max(sc["maxsize"], 0) and sc["maxsize"] >= 0:
                res.bad("over_maxsize", f"{len(c)} entries with maxsize {sc['maxsize']}")
            dup = [v for v, n in dispose_count.items() if n > 1]
            if dup:
                res.bad("disposed_twice", f"{dup}")
            if not linearizable(complete, sc["maxsize"]):
                res.bad("not_linearizable", "no sequential order of the LRU model explains: " + "; ".join(f"{h['task']}:{h['op']['op']}({h['op'].get('key', '')}{'=' + h['op']['value'] if 'value' in h['op'] else ''})->{h['result']} disp={h['disposed']} [{h['inv']},{h['ret']}]" for h in complete))
            # every value that left the container was disposed exactly once
            written = [h["op"]["value"] for h in complete if h["op"]["op"] == "set"]
            remaining = set()
            for k_ in KEYS:
                try:
                    remaining.add(c._container[k_]) if hasattr(c, "_container") and k_ in c._container else None
                except Exception:
                    pass
            if hasattr(c, "_container"):
                for v in written:
                    if v not in remaining and dispose_count.get(v, 0) != 1:
                        res.bad("dispose_count_wrong", f"value {v} left the container but dispose was called {dispose_count.get(v, 0)} times")
                        break
        ntasks = len(sc["tasks"])
        res.probes["lru_concurrent" if ntasks > 1 else "lru_sequential"] += 1
        kinds = [h["op"]["op"] for h in history]
        if any(h["disposed"] and h["op"]["op"] == "set" and h["op"]["key"] in [x["op"].get("key") for x in history[:i] if x["op"]["op"] == "set"] for i, h in enumerate(history)):
            res.probes["replaced"] += 1
        if any(h["disposed"] and h["op"]["op"] == "set" for h in history):
            res.probes["evicted"] += 1
        if any(h["disposed"] and h["op"]["op"] == "clear" for h in history):
            res.probes["cleared"] += 1
        if sched.preemptions:
            res.probes["preempted"] += 1
        if any(x[1] == "block" and x[2] == "lock" for x in sched.trace):
            res.probes["lock_contended"] += 1
        res.info["switch_log"] = list(sched.switch_log)
        res.faults["preemptions"] += sched.preemptions
        res.digest = stable_hash(([(h["task"], h["op"]["op"], h["result"], tuple(h["disposed"]), h["inv"], h["ret"]) for h in history], sched.trace))
        res.trace = hash((repr(sc["tasks"]), sc["maxsize"], tuple(sched.trace)))
        res.nontrivial = sched.preemptions > 0 or len(history) >= 4
        res.steps = sched.steps
    return res


def run_pm(sc) -> Result:
    from urllib3.exceptions import ClosedPoolError

    res = Result()
    urllib3 = H.u3()
    w = W.World({"exchanges": list(sc.get("exchanges") or [])})
    w.default_listener = H.origin_factory()
    injected = sum(1 for e in sc.get("exchanges") or [] if e.get("k") in ("eof", "rst"))
    with H.RunEnv(), H.quiet_warnings(), w:
        sched = S.Scheduler(w, sc["schedule"])
        pm = urllib3.PoolManager(num_pools=sc["num_pools"], timeout=5.0, retries=False, **({"maxsize": sc["pool_maxsize"]} if sc.get("pool_maxsize") else {}))
        pm.pools.lock = sync.SimRLock()
        over = []
        seqno = [0]
        cache_hist = []  # invoke/return stamped lookups and clears (for the linearizability check of cache-only histories)
        tokens = {}  # id(pool) -> token; the pools are kept alive in `lookups`, so ids are not reused
        lookups = []  # (url origin, id(pool), step)
        evict_possible = [False]
        origins_used = set()

        def check_bound(where):
            n = len(pm.pools)
            if n > sc["num_pools"]:
                over.append((where, n))

        def make(task):
            def body():
                out = []
                held = []
                for op in task["ops"]:
                    kind = op["op"]
                    hrec_ = None
                    if kind in ("lookup", "clear"):
                        seqno[0] += 1
                        hrec_ = {"op": kind, "key": op.get("url", "").split("/")[2] if kind == "lookup" else None, "inv": seqno[0], "ret": None, "result": None, "task": task["name"]}
                        cache_hist.append(hrec_)
                    try:
                        if kind == "lookup":
                            p = pm.connection_from_url(op["url"])
                            lookups.append((op["url"].split("/")[2], p))
                            hrec_["result"] = tokens.setdefault(id(p), f"P{len(tokens)}")
                        elif kind == "request":
                            r = pm.request("GET", op["url"])
                            out.append(("ok", op["url"], r.status, r.data))
                        elif kind == "stream":
                            r = pm.request("GET", op["url"], preload_content=False)
                            held.append([op["hold"], op["url"], r])
                        elif kind == "clear":
                            evict_possible[0] = True
                            pm.clear()
                    except (S.SimDeadlock, S.TaskAbort, W.StepLimit, W.SimHang):
                        raise
                    except Exception as e:
                        H.strip_tb(e)
                        out.append(("exc", op.get("url"), e))
                    if hrec_ is not None:
                        seqno[0] += 1
                        hrec_["ret"] = seqno[0]
                    check_bound(kind)
                    for hrec in list(held):
                        hrec[0] -= 1
                        if hrec[0] <= 0:
                            held.remove(hrec)
                            try:
                                data = hrec[2].read()
                                hrec[2].release_conn()
                                out.append(("ok", hrec[1], hrec[2].status, data))
                            except Exception as e:
                                H.strip_tb(e)
                                out.append(("exc_inflight", hrec[1], e))
                for hrec in held:
                    try:
                        data = hrec[2].read()
                        hrec[2].release_conn()
                        out.append(("ok", hrec[1], hrec[2].status, data))
                    except Exception as e:
                        H.strip_tb(e)
                        out.append(("exc_inflight", hrec[1], e))
                held.clear()
                return out

            return body

        for t in sc["tasks"]:
            sched.spawn(t["name"], make(t))
        sched.run()
        urls = [op["url"].split("/")[2] for t in sc["tasks"] for op in t["ops"] if "url" in op]
        n_origins = len(set(urls))
        for t in sched.tasks:
            if t.error is not None:
                if isinstance(t.error, S.SimDeadlock):
                    res.bad("deadlock", f"{t.name}: {t.error}")
                elif isinstance(t.error, W.StepLimit):
                    res.bad("no_termination", str(t.error))
                else:
                    res.bad(f"task_crashed:{type(t.error).__name__}", f"{t.name}: {t.error!r:.160}")
            for item in t.result or []:
                if item[0] == "ok":
                    path = "/" + item[1].split("/", 3)[3]
                    if item[2] != 200 or (f"[GET {path} #").encode() not in item[3]:
                        res.bad("wrong_response", f"{t.name} {item[1]}: {item[2]} {item[3][:50]!r}")
                    elif "/s" in item[1]:
                        res.probes["pm_inflight_read"] += 1
                elif injected and H.is_urllib3_error(item[2]) and not isinstance(item[2], ClosedPoolError) and w.faults_fired:
                    res.probes["pm_injected_failure_surfaced"] += 1
                elif item[0] == "exc_inflight":
                    res.bad("inflight_response_broken", f"{t.name} {item[1]}: {item[2]!r:.140} (pool evicted or cleared while the response was being read)")
                else:
                    e = item[2]
                    if isinstance(e, ClosedPoolError):
                        res.bad("cached_pool_closed", f"{t.name} {item[1]}: {e!r:.120}")
                    else:
                        res.bad(f"unexpected_exception:{type(e).__name__}", f"{t.name} {item[1]}: {e!r:.140}")
        if over:
            res.bad("cache_over_num_pools", f"{over[0][1]} pools cached after {over[0][0]}, num_pools={sc['num_pools']}")
        if n_origins <= sc["num_pools"] and not evict_possible[0]:
            by = {}
            for o, p in lookups:
                by.setdefault(o, set()).add(id(p))
            if any(len(v) > 1 for v in by.values()):
                res.bad("duplicate_pools_for_equal_parameters", f"{ {k_: len(v) for k_, v in by.items()} }")
            elif lookups:
                res.probes["pm_same_pool_identity"] += 1
        if all(op["op"] in ("lookup", "clear") for t in sc["tasks"] for op in t["ops"]) and not res.violations and all(h["ret"] is not None for h in cache_hist):
            final = {}
            try:
                for key in pm.pools.keys():
                    final[key.key_host] = tokens.get(id(pm.pools[key]), "P?")
            except Exception as e:  # a key vanished between keys() and the lookup: nobody else is running any more
                res.bad(f"unexpected_exception:{type(e).__name__}", repr(e)[:140])
            if not pm_linearizable(cache_hist, sc["num_pools"], final):
                res.bad("pm_cache_not_linearizable", "no order of the get-or-create LRU cache explains: " + "; ".join(f"{h['task']}:{h['op']}({h['key'] or ''})->{h['result']} [{h['inv']},{h['ret']}]" for h in cache_hist) + f"; cached at the end: {final}")
            else:
                res.probes["pm_cache_linearizable"] += 1
        if n_origins > sc["num_pools"] and any(op["op"] == "stream" for t in sc["tasks"] for op in t["ops"]) and not res.violations:
            res.probes["pm_evicted_inflight_ok"] += 1
        if evict_possible[0]:
            res.probes["pm_cleared"] += 1
        res.info["switch_log"] = list(sched.switch_log)
        res.faults["preemptions"] += sched.preemptions
        if sched.preemptions:
            res.probes["preempted"] += 1
        # a pool that is still cached must still work
        sched = None
        if not res.violations:
            try:
                for o in sorted(set(urls)):
                    p = pm.connection_from_url(f"http://{o}/")
                    if p.pool is None:
                        res.bad("cached_pool_closed", f"pool for {o} is cached but closed")
            except Exception as e:
                res.bad(f"unexpected_exception:{type(e).__name__}", repr(e)[:140])
        lookups.clear()
        p = None
        pm.clear()
        pm = None
        H.collect()
        left = w.open_sockets()
        if left:
            res.bad("socket_open_after_manager_dropped", f"{len(left)} sockets: {left}")
        by_gc = [e[2] for e in w.events if e[1] == "close_dealloc"]
        if by_gc:
            res.bad("socket_closed_only_by_garbage_collection", f"sockets {by_gc} of evicted/cleared/dropped pools were never closed by urllib3, only reclaimed when the socket object was deallocated")
        res.faults.update(w.faults_fired)
        res.digest = w.digest()
        res.trace = hash((repr(sc["tasks"]), sc["num_pools"], w.abstract_trace()))
        res.nontrivial = True
        res.sim_s = w.now - W.VClock.START
        res.steps = w.io_step
    return res


def shrinks(sc):
    if sc["kind"] == "lru_enum":
        # reduce the batch to the one failing sequence, then drop operations from it
        if sc.get("sequences") is None:
            r = run(sc)
            if r.info.get("failing_sequence") is not None:
                c = copy.deepcopy(sc)
                c["sequences"] = [r.info["failing_sequence"]]
                yield c
        else:
            seq = sc["sequences"][0]
            for i in range(len(seq)):
                c = copy.deepcopy(sc)
                c["sequences"] = [seq[:i] + seq[i + 1 :]]
                if c["sequences"][0]:
                    yield c
        return
    sch = sc["schedule"]
    if "decisions" not in sch:
        r = run(sc)
        if r.info.get("switch_log") is not None:
            c = copy.deepcopy(sc)
            c["schedule"] = {"decisions": [list(x) for x in r.info["switch_log"]]}
            yield c
    else:
        dec = sch["decisions"]
        if len(dec) > 1:
            for part in (dec[: len(dec) // 2], dec[len(dec) // 2 :]):
                c = copy.deepcopy(sc)
                c["schedule"] = {"decisions": part}
                yield c
        for i in range(len(dec)):
            c = copy.deepcopy(sc)
            c["schedule"] = {"decisions": dec[:i] + dec[i + 1 :]}
            yield c
    for fld in ("pool_maxsize",):
        if sc.get(fld):
            c = copy.deepcopy(sc)
            del c[fld]
            yield c
    for i in range(len(sc.get("exchanges") or [])):
        c = copy.deepcopy(sc)
        del c["exchanges"][i]
        yield c
    for ti, t in enumerate(sc["tasks"]):
        for oi in range(len(t["ops"])):
            c = copy.deepcopy(sc)
            del c["tasks"][ti]["ops"][oi]
            c["tasks"] = [x for x in c["tasks"] if x["ops"]]
            if c["tasks"]:
                yield c


KNOWN = {}
