"""C11 -- request bodies are framed exactly and re-sent identically.
Engine: simnet; every attempt of a request (retry after reset/503, 307/308/303
redirect) is recorded by the simulated sockets and judged by the strict parser."""
from __future__ import annotations

import array
import copy
import io

from simkit import harness as H
from simkit import httpwire as HW
from simkit import tls as T
from simkit import world as W
from simkit.runner import Result, rng_for

ID = "C11"
ENGINE = "simnet"
LEVEL = "exploration"
TECHNIQUE = "deterministic network simulation of attempt histories (reset, 503, 307/308, 303 then ok) per body kind; independent framing parser per attempt and byte-identity across attempts"
LEVEL_TEXT = (
    "Seeded (body kind x size around the blocksize x method x chunked flag x caller framing headers x attempt history of length <= 3) through a pool and a PoolManager; the simulated "
    "network forces the request to be sent again and an independent parser checks the framing and payload of every attempt. Sampling."
)
LEVEL_NOTE = "trusted: simkit.httpwire framing parser; reference payloads computed by the generator; blocksize 64 so that multi-block bodies stay small"
N = {"quick": 40000, "thorough": 600000}
BUDGET = {"quick": 45, "thorough": 420}
RULE = (
    "index k -> (entry, method, body kind/size/offset, chunked flag, caller framing header, history). Non-trivial = the request was sent at least twice or has a body; distinct = distinct "
    "(entry, method, body spec, chunked, framing header, history)."
)
ASSUMPTIONS = ["blocksize is set to 64 through the public constructor keyword", "str bodies/chunks are compared as UTF-8"]
REQUIRED_PROBES = {
    "quick": ["resent_identical", "unrewindable_raised", "bodyless_unframed", "bodyless_cl0", "303_dropped_body", "chunked_ok", "cl_ok", "kind:file_offset", "kind:file_short_reads", "kind:file_seek_none", "entry:pool_tls", "call:request", "kind:generator", "kind:array_h"],
    "thorough": ["resent_identical", "unrewindable_raised", "bodyless_unframed", "bodyless_cl0", "303_dropped_body", "chunked_ok", "cl_ok", "kind:file_offset", "kind:file_short_reads", "kind:file_seek_none", "entry:pool_tls", "call:request", "kind:generator", "kind:array_h"],
}

BLOCK = 64
KINDS = ["none", "bytes", "str", "str_nonascii", "bytearray", "memoryview", "array_b", "array_h", "bytesio", "textio", "textfile_readahead", "file_offset", "file_tell_raises", "file_no_tell", "file_short_reads", "file_seek_none", "list", "generator", "iter_empty_chunks", "list_str"]
SIZES = [0, 1, BLOCK - 1, BLOCK, BLOCK + 1, 5 * BLOCK]
NO_BODY_METHODS = {"GET", "HEAD", "DELETE", "TRACE", "OPTIONS", "CONNECT"}


class _TellRaises(io.BytesIO):
    def tell(self):
        raise OSError("tell not supported")


class _ShortReads(io.BytesIO):
    """A seekable stream whose read(n) legally returns fewer than n bytes before the end (raw / unbuffered files, pipes)."""

    def read(self, n=-1):
        if n is None or n < 0:
            return super().read()
        return super().read(min(n, 7 + self.tell() % 5))


class _SeekReturnsNone(io.BytesIO):
    """Seekable, tell() works, but seek() returns None (mmap before 3.13, codecs readers, wrappers that merely delegate)."""

    def seek(self, *a):
        super().seek(*a)
        return None


class _NoTell:
    def __init__(self, data: bytes):
        self._f = io.BytesIO(data)

    def read(self, n=-1):
        return self._f.read(n)


def payload(n: int) -> bytes:
    return (bytes(range(48, 122)) * (n // 74 + 1))[:n]


def make_body(spec):
    """-> (object handed to urllib3, bytes that must appear on the wire)"""
    kind, n = spec["kind"], spec.get("size", 0)
    raw = payload(n)
    if kind == "none":
        return None, b""
    if kind == "bytes":
        return raw, raw
    if kind == "str":
        return raw.decode("ascii"), raw
    if kind == "str_nonascii":
        s = ("é中" * (n // 2 + 1))[:n]
        return s, s.encode("utf-8")
    if kind == "bytearray":
        return bytearray(raw), raw
    if kind == "memoryview":
        return memoryview(raw), raw
    if kind == "array_b":
        return array.array("B", raw), raw
    if kind == "array_h":
        raw2 = raw[: len(raw) // 2 * 2]
        a = array.array("H")
        a.frombytes(raw2)
        return a, raw2
    if kind == "bytesio":
        return io.BytesIO(raw), raw
    if kind == "textio":
        s = ("aé" * (n // 2 + 1))[:n]
        return io.StringIO(s), s.encode("utf-8")
    if kind == "textfile_readahead":
        # a real text-mode file object positioned by *reading* (a header line consumed first): the wrapper has read ahead, so its
        # own position and that of the binary buffer underneath differ
        s = ("aé" * (n // 2 + 1))[:n]
        f = io.TextIOWrapper(io.BytesIO(("first line\n" + s).encode("utf-8")), encoding="utf-8", newline="")
        f.readline()
        return f, s.encode("utf-8")
    if kind == "file_offset":
        off = min(spec.get("offset", 3), n)
        f = io.BytesIO(raw)
        f.seek(off)
        return f, raw[off:]
    if kind == "file_tell_raises":
        return _TellRaises(raw), raw
    if kind == "file_no_tell":
        return _NoTell(raw), raw
    if kind == "file_short_reads":
        return _ShortReads(raw), raw
    if kind == "file_seek_none":
        return _SeekReturnsNone(raw), raw
    chunks = [raw[i : i + 50] for i in range(0, len(raw), 50)]
    if kind == "list":
        return chunks, raw
    if kind == "list_str":
        return [c.decode("ascii") for c in chunks], raw
    if kind == "generator":
        return (c for c in chunks), raw
    if kind == "iter_empty_chunks":
        out = []
        for c in chunks:
            out += [b"", c, b""]
        return out + [b""], raw
    raise ValueError(kind)


def gen(rng):
    kind = rng.choice(KINDS)
    method = rng.choice(["POST", "PUT", "PATCH", "GET", "DELETE", "OPTIONS", "HEAD", "POST"])
    spec = {"kind": kind, "size": rng.choice(SIZES)}
    if kind == "file_offset":
        spec["offset"] = rng.choice([0, 1, 7, BLOCK])
    hist = []
    for _ in range(rng.choice([0, 1, 1, 2])):
        # ("stall": the request is received in full and never answered -- the read times out and the attempt is repeated)
        hist.append(rng.choice(["rst", "503", "307", "308", "303", "301", "302", "stall"]))
    fh = None
    c = rng.random()
    if c < 0.08 and kind not in ("none",):
        fh = "te"
    elif c < 0.14 and kind in ("bytes", "str", "bytearray", "bytesio", "generator", "list"):
        fh = "cl"
    sc = {"property": ID, "entry": rng.choice(["pool", "pm"]), "method": method, "body": spec, "chunked": rng.random() < 0.3, "framing_header": fh, "history": hist}
    if rng.random() < 0.25:
        sc["retry_total_none"] = True
    if rng.random() < 0.3:
        sc["call"] = "request"  # through RequestMethods.request() (which routes by method) instead of urlopen()
    if rng.random() < 0.08:
        # the same over TLS (the record layer writes the body in its own portions), with bodies larger than one TLS record
        sc["entry"] = "pool_tls"
        if rng.random() < 0.6 and kind in ("bytes", "str", "bytearray", "memoryview", "array_b", "array_h"):
            spec["size"] = rng.choice([20000, 40000])  # (buffer bodies go out in one piece; file bodies would be read 64 bytes at a time)
        sc["history"] = [h for h in hist if h in ("rst", "503")][:1]
    return sc


def cases(seed, k, tier):
    yield gen(rng_for(seed, ID, k))


def run(sc: dict) -> Result:
    from urllib3.exceptions import UnrewindableBodyError
    from urllib3.util.retry import Retry

    res = Result()
    urllib3 = H.u3()
    hist = list(sc["history"])
    ex = []
    for h in hist:
        if h == "rst":
            ex.append({"k": "rst"})
        elif h == "stall":
            ex.append({"k": "stall"})
        elif h == "503":
            ex.append({"k": "resp", "status": 503, "body": "busy"})
        else:
            ex.append({"k": "resp", "status": int(h), "headers": [["Location", "/next"]], "body": "moved"})
    w = W.World({"exchanges": ex})
    w.default_listener = H.origin_factory()
    tls_peers = []
    if sc["entry"] == "pool_tls":
        fac = H.tls_origin_factory()

        def listener(world, chan):
            tp = fac(world, chan)
            tls_peers.append(tp)
            return tp

        w.default_listener = listener
    body, want = make_body(sc["body"])
    res.probes["kind:" + sc["body"]["kind"]] += 1
    method = sc["method"]
    hdrs = {"X-T": "1"}
    if sc["framing_header"] == "te":
        hdrs["Transfer-Encoding"] = "chunked"
    elif sc["framing_header"] == "cl":
        hdrs["Content-Length"] = str(len(want))
    retries = Retry(total=4, allowed_methods=None, status_forcelist=[503], backoff_factor=0)
    if sc.get("retry_total_none"):
        # the same budget spelled per category, with total=None (a documented configuration)
        retries = Retry(total=None, connect=4, read=4, status=4, other=4, redirect=6, allowed_methods=None, status_forcelist=[503], backoff_factor=0)
    with H.RunEnv(), H.quiet_warnings(), w:
        err = None
        try:
            via_request = sc.get("call") == "request"
            if via_request:
                res.probes["call:request"] += 1
            if sc["entry"] == "pool_tls":
                res.probes["entry:pool_tls"] += 1
                p = urllib3.HTTPSConnectionPool("origin.test", 443, ca_certs=T.CA_GOOD, timeout=3.0, blocksize=BLOCK)
                (p.request if via_request else p.urlopen)(method, "/start", body=body, headers=hdrs, retries=retries, chunked=sc["chunked"])
            elif sc["entry"] == "pool":
                p = urllib3.HTTPConnectionPool("h.test", 80, timeout=3.0, blocksize=BLOCK)
                (p.request if via_request else p.urlopen)(method, "/start", body=body, headers=hdrs, retries=retries, chunked=sc["chunked"])
            else:
                p = urllib3.PoolManager(timeout=3.0, blocksize=BLOCK)
                (p.request if via_request else p.urlopen)(method, "http://h.test/start", body=body, headers=hdrs, retries=retries, chunked=sc["chunked"])
        except (W.SimHang, W.StepLimit) as e:
            err = e
            res.bad("hang", str(e))
        except Exception as e:
            err = e
            H.strip_tb(e)
        # ---- every attempt, in wire order, by the strict parser
        attempts = []
        broken = None
        # what each connection carried: the bytes on the socket, or -- under TLS -- the plaintext the server side decrypted
        streams = [(tp.chan.sid, bytes(tp.plain_in)) for tp in tls_peers] if sc["entry"] == "pool_tls" else [(s.sid, bytes(s.sent)) for s in w.sockets]
        for sid_, data_ in streams:
            if not data_:
                continue
            reqs, left, perr = HW.parse_requests(data_)
            for r in reqs:
                attempts.append((sid_, r))
            if perr or left:
                broken = (sid_, perr, data_[:200])
                break
        if broken is not None and not (isinstance(err, Exception) and not attempts and False):
            res.bad("malformed_framing", f"socket {broken[0]}: {broken[1]}; wire {broken[2]!r}")
        cur_method = method
        body_dropped = False
        first_payload = None
        resend = 0
        for i, (sid, r) in enumerate(attempts):
            if i > 0 and i - 1 < len(hist) and hist[i - 1] == "303":
                cur_method, body_dropped = "GET", True
            m = r["method"].decode()
            names = [k.lower() for k, _ in r["fields"]]
            n_cl, n_te = names.count(b"content-length"), names.count(b"transfer-encoding")
            if body_dropped:
                if m != "GET" or r["body"]:  # (an empty chunked body is what C11 allows when chunking was requested)
                    res.bad("303_body_kept", f"attempt {i}: {m} with {len(r['body'])} body bytes after 303")
                else:
                    res.probes["303_dropped_body"] += 1
                continue
            if m != cur_method:
                res.bad("method_changed", f"attempt {i}: {m}, expected {cur_method}")
            if sc["framing_header"] is None:
                if sc["body"]["kind"] == "none":
                    if sc["chunked"]:
                        if not (n_te == 1 and n_cl == 0 and r["framing"] == "chunked" and r["body"] == b""):
                            res.bad("bad_framing:bodyless_chunked", f"attempt {i}: fields {r['fields']!r}")
                    elif method.upper() in NO_BODY_METHODS:
                        if n_cl or n_te:
                            res.bad("bad_framing:bodyless_should_be_unframed", f"attempt {i} {m}: fields {r['fields']!r}")
                        else:
                            res.probes["bodyless_unframed"] += 1
                    else:
                        if not (n_cl == 1 and n_te == 0 and dict((k.lower(), v) for k, v in r["fields"])[b"content-length"] == b"0"):
                            res.bad("bad_framing:bodyless_needs_cl0", f"attempt {i} {m}: fields {r['fields']!r}")
                        else:
                            res.probes["bodyless_cl0"] += 1
                else:
                    if n_cl + n_te != 1:
                        res.bad("bad_framing:not_exactly_one", f"attempt {i}: Content-Length x{n_cl}, Transfer-Encoding x{n_te}: {r['fields']!r}")
                    elif sc["chunked"] and n_te != 1:
                        res.bad("bad_framing:chunked_requested", f"attempt {i}: chunked=True but fields {r['fields']!r}")
                    else:
                        res.probes["chunked_ok" if n_te else "cl_ok"] += 1
            if first_payload is None:
                first_payload = r["body"]
                if sc["body"]["kind"] != "none" and r["body"] != want and broken is None:
                    res.bad("payload_mismatch", f"attempt 0 carried {len(r['body'])} bytes {r['body'][:40]!r}, body is {len(want)} bytes {want[:40]!r}")
            else:
                resend += 1
                if r["body"] != first_payload:
                    res.bad("resend_body_changed", f"attempt {i} carried {len(r['body'])} bytes, attempt 0 carried {len(first_payload)} ({sc['body']['kind']}, after {hist[i - 1] if i - 1 < len(hist) else '?'})")
                elif first_payload:
                    res.probes["resent_identical"] += 1
        if isinstance(err, UnrewindableBodyError):
            if not attempts:
                # refusing to *re*-send is what the statement allows; refusing the first transmission of a body is not
                res.bad("unrewindable_on_first_attempt", f"{sc['body']['kind']} body via {sc['entry']}: {err!s:.120} although nothing had been sent yet")
            else:
                res.probes["unrewindable_raised"] += 1
        elif isinstance(err, Exception) and not H.is_urllib3_error(err):
            if not (isinstance(err, TypeError) and sc["body"]["kind"] in ("list_str",)):
                res.probes["other_exception:" + type(err).__name__] += 1
        res.faults.update(w.faults_fired)
        res.digest = w.digest()
        res.trace = hash((sc["entry"], method, repr(sc["body"]), sc["chunked"], sc["framing_header"], tuple(hist)))
        res.nontrivial = len(attempts) >= 2 or sc["body"]["kind"] != "none"
        res.sim_s = w.now - W.VClock.START
        res.steps = w.io_step
    return res


def shrinks(sc):
    for i in range(len(sc["history"])):
        c = copy.deepcopy(sc)
        del c["history"][i]
        yield c
    if sc.get("call"):
        c = copy.deepcopy(sc)
        del c["call"]
        yield c
    for fld, simple in (("entry", "pool"), ("chunked", False), ("framing_header", None), ("method", "POST")):
        if sc[fld] != simple:
            c = copy.deepcopy(sc)
            c[fld] = simple
            yield c
    for n in SIZES:
        if n < sc["body"].get("size", 0):
            c = copy.deepcopy(sc)
            c["body"]["size"] = n
            yield c
    for i, h in enumerate(sc["history"]):
        if h != "503":
            c = copy.deepcopy(sc)
            c["history"][i] = "503"
            yield c


ONE_SHOT = ("generator", "file_no_tell")


def _trig_oneshot(sc, res):
    return sc["body"]["kind"] in ONE_SHOT and len(sc["history"]) >= 1


def _neut_oneshot(sc):
    sc["body"]["kind"] = "list" if sc["body"]["kind"] == "generator" else "bytesio"
    return sc


KNOWN = {"KF-C11-one-shot-body-resent-empty": (_trig_oneshot, _neut_oneshot)}
