"""C01 -- a pool never loses, duplicates or leaks connection slots, whatever the
outcome.  Engine: simnet.  Level: fault_enumeration (every single fault at every
I/O step of sampled fault-free histories) + random multi-fault histories."""
from __future__ import annotations

import copy

from simkit import harness as H
from simkit import world as W
from simkit.runner import Result, rng_for

ID = "C01"
ENGINE = "simnet"
LEVEL = "fault_enumeration"
TECHNIQUE = "deterministic network simulation, single-fault enumeration at every I/O step + seeded multi-fault histories, public slot probe"
LEVEL_TEXT = (
    "Every single fault kind at every connect/send/recv step of sampled fault-free request histories, plus seeded random multi-fault histories, run against "
    "the real pool over a simulated network; after each history a public-API probe counts slots, distinct connections and open sockets, and no socket may have been left to the garbage collector (never closed by urllib3). Sampling, not proof."
)
LEVEL_NOTE = "trusted: the simulated socket/poll/clock semantics and the scripted peers; TLS via SSLTransport over MemoryBIO; bounded histories (<=5 requests, <=3 faults)"
N = {"quick": 900, "thorough": 12000}
BUDGET = {"quick": 50, "thorough": 420}
RESAMPLE = 25
RULE = (
    "index k -> seeded history of 1-5 requests on one pool (direct / forwarding proxy / CONNECT tunnel with in-memory TLS) with generated "
    "disposal of every response; k%3==0: the fault-free history is run once to count its I/O steps K and then re-run once per (step<K, applicable "
    "fault kind) -- every single fault at every step; otherwise 1-3 faults from scripted dial/exchange outcomes and random step faults. "
    "Non-trivial = at least one fault fired or >=2 exchanges; distinct = distinct abstract trace (event kind + socket id sequence, payload excluded)."
)
ASSUMPTIONS = [
    "peer models are mine: strict HTTP/1.1 origin/proxy misbehaving only as scripted",
    "TLS client side runs through urllib3's SSLTransport (MemoryBIO) instead of ssl.SSLSocket",
    "slots are probed through the public API (streaming leases with pool_timeout=0); pool.pool.qsize() only as cross-check when present",
    "blocking pools: the generator never issues a request while maxsize leases are outstanding unless pool_timeout is set",
]
REQUIRED_PROBES = {
    "quick": ["connect:refused", "send:epipe", "recv:reset", "recv:intr", "poll:intr", "retry_happened", "redirect_followed", "probe_block", "probe_nonblock", "tunnel_used"],
    "thorough": ["connect:refused", "send:epipe", "recv:reset", "recv:intr", "retry_happened", "redirect_followed", "probe_block", "probe_nonblock", "tunnel_used"],
}

# "*_only": the body is consumed to its end and nothing else is done -- reading to the end is what gives the connection back
DISPOSALS = ["read_all", "read_k_release", "release_unread", "drain", "close_release", "close_only", "stream_all", "stream_part_release", "with_block", "drop", "data",
             "read_all_only", "stream_all_only", "iter_only", "read1_all_only", "readinto_all_only"]
CLOSE_ONLY = ("close_only", "with_block", "drop")

SEND_FAULTS = ["epipe", "reset", "eprototype", "eio", "intr", "timeout"]
RECV_FAULTS = ["timeout", "reset", "eof", "intr", "eio", "eagain", "corrupt"]
CONN_FAULTS = ["refused", "timeout", "intr", "eio"]


# ----------------------------------------------------------------------------- generation


def _gen_retries(rng):
    c = rng.random()
    if c < 0.12:
        return False
    if c < 0.25:
        return 0
    if c < 0.45:
        return rng.choice([1, 2])
    if c < 0.55:
        return "default"
    spec = {"total": rng.choice([None, 1, 2, 3]), "connect": rng.choice([None, 0, 1]), "read": rng.choice([None, 0, 1, 2]), "status": rng.choice([None, 0, 1]), "other": rng.choice([None, 0, 1]), "redirect": rng.choice([None, 0, 1, 2])}
    if spec["total"] is None and all(spec[x] is None for x in ("connect", "read", "status", "other", "redirect")):
        spec["total"] = 2
    for x in ("connect", "read", "status", "other", "redirect"):
        if spec[x] is None and spec["total"] is None:
            spec[x] = 2  # keep every retry loop finite
    if rng.random() < 0.5:
        spec["status_forcelist"] = [500, 503]
    if rng.random() < 0.3:
        spec["raise_on_status"] = False
    if rng.random() < 0.2:
        spec["raise_on_redirect"] = False
    if rng.random() < 0.25:
        spec["backoff_factor"] = rng.choice([0.5, 2.0])  # waits between attempts: places where an interrupt can land
    if rng.random() < 0.2:
        spec["allowed_methods"] = None
    return spec


def _gen_exchange(rng, faulty: bool):
    c = rng.random()
    if not faulty or c < 0.45:
        st = rng.choice([200, 200, 200, 204, 404, 500, 503])
        ex = {"k": "resp", "status": st, "framing": rng.choice(["cl", "cl", "chunked", "close"]), "body": {"tag": rng.choice([1, 3, 40])}}
        if rng.random() < 0.12:
            ex["body"] = ""  # Content-Length: 0 / an empty chunked or close-delimited body
        if rng.random() < 0.25:
            ex["keepalive"] = False
        if rng.random() < 0.15 and ex["framing"] != "close":
            ex["end"] = "idle_close"
            ex["close_delay"] = rng.choice([0.0, 1.0])
        return ex
    if c < 0.55:
        return {"k": "resp", "status": rng.choice([301, 302, 303, 307, 308]), "headers": [["Location", rng.choice(["/next", "/loop", "/r0"])]], "body": "moved"}
    if c < 0.62:
        # (a Retry-After that is neither a number nor a date makes the wait itself fail, after the response has been taken)
        # (the error page may be large: what the library does with an unread 70 kB body before it tries again is its own business,
        #  the slot must come back all the same)
        return {"k": "resp", "status": rng.choice([429, 503, 503, 413]), "headers": [["Retry-After", str(rng.choice([0, 1, 2, 2, "soon", "-1"]))]], "body": rng.choice(["later", "later", {"tag": 6000}]), "framing": rng.choice(["cl", "cl", "chunked"])}
    if c < 0.70:
        return {"k": "eof"}
    if c < 0.76:
        return {"k": "rst"}
    if c < 0.82:
        return {"k": "garbage", "data": rng.choice(["\x00\x01\x02\r\n\r\n", "HTTP/1.1 abc OK\r\n\r\n", "SSH-2.0-x\r\n"])}
    if c < 0.88:
        return {"k": "stall"}
    # cut-off body
    return {"k": "resp", "status": 200, "framing": rng.choice(["cl", "chunked"]), "body": {"tag": 5}, "cut": rng.choice([20, 45, 70, 90]), "end": rng.choice(["eof", "rst", "stall"])}


def gen_base(rng, tier: str, faulty: bool) -> dict:
    paths = ["direct"] * 6 + ["fwd"] * 3 + (["tunnel", "tunnel", "direct_tls", "tunnel_tlsproxy"] if tier == "thorough" else ["tunnel", "direct_tls"])
    path = rng.choice(paths)
    maxsize = rng.choice([1, 1, 2, 3])
    block = rng.random() < 0.55
    preload = rng.random() < 0.4
    cfg = {"path": path, "maxsize": maxsize, "block": block, "retries": _gen_retries(rng), "preload": preload, "release_conn": rng.choice([None, None, True, False])}
    if rng.random() < 0.5:
        cfg["timeout"] = {"connect": rng.choice([1.0, 3.0]), "read": rng.choice([1.0, 5.0])}
    else:
        cfg["timeout"] = 7.0  # always finite: a silent peer must surface as a timeout, not a hang
    nreq = rng.choice([1, 1, 2, 2, 3, 4, 5])
    ops = []
    live = []  # ids of responses that may hold a lease
    for i in range(nreq):
        rid = f"r{i}"
        # dispose some earlier ones first
        while live and (rng.random() < 0.5 or (block and len(live) >= maxsize and rng.random() < 0.85)):
            j = live.pop(rng.randrange(len(live)))
            ops.append({"op": "dispose", "of": j, "how": _gen_how(rng)})
        op = {"op": "request", "id": rid, "method": rng.choice(["GET", "GET", "GET", "HEAD", "POST", "PUT"]), "path": f"/{rid}"}
        if op["method"] in ("POST", "PUT"):
            op["body"] = {"kind": rng.choice(["bytes", "bytesio", "bytes", "bytesio", "notell"]), "size": rng.choice([0, 10, 20000])}
        if block and len(live) >= maxsize:
            op["pool_timeout"] = rng.choice([0, 0.5])
        elif rng.random() < 0.1:
            op["pool_timeout"] = 1.0
        if rng.random() < 0.15:
            op["redirect"] = False
        ops.append(op)
        live.append(rid)
        if rng.random() < 0.15:
            ops.append({"op": "advance", "d": rng.choice([0.5, 2.0])})
    while live:
        j = live.pop(rng.randrange(len(live)))
        ops.append({"op": "dispose", "of": j, "how": _gen_how(rng)})
    nx = rng.choice([0, nreq, nreq + 2])
    exchanges = [_gen_exchange(rng, faulty) for _ in range(nx)]
    sc = {"property": ID, "config": cfg, "ops": ops, "dials": [], "exchanges": exchanges, "step_faults": [], "seg": rng.choice([{"mode": "whole"}, {"mode": "whole"}, {"mode": "fixed", "n": rng.choice([1, 7, 100])}])}
    if path.startswith("tunnel") or path == "direct_tls":
        sc["seg"] = {"mode": "whole"}
        sc["connects"] = []
    if any(isinstance(x.get("body"), dict) and x["body"].get("tag", 0) >= 1000 for x in exchanges):
        sc["seg"] = {"mode": "whole"}  # (a 70 kB body delivered byte by byte would only exhaust the step budget)
    if rng.random() < 0.25:
        sc["close_without_probe"] = True
    if rng.random() < 0.1:
        # close() in the middle of the history, before the disposals that follow it (later requests then fail with ClosedPoolError)
        req_pos = [i for i, o in enumerate(ops) if o["op"] == "request"]
        ops.insert(rng.randrange(req_pos[0] + 1, len(ops) + 1), {"op": "close_pool"})
        sc["close_without_probe"] = True
    if rng.random() < 0.3:
        sc["close_in_with"] = True  # the pool is closed by leaving a `with pool:` block in which an interrupt is raised
    if preload and cfg["release_conn"] is False:
        # release_conn=False is the caller's promise to release the connection itself: a preloaded body is read before the response
        # knows its pool, so merely iterating over it afterwards gives nothing back
        for o in ops:
            if o["op"] == "dispose" and o["how"] in ("stream_all_only", "iter_only", "read1_all_only", "readinto_all_only"):
                o["how"] = "stream_all"
    return sc


def _gen_how(rng):
    c = rng.random()
    if c < 0.08:
        return rng.choice(CLOSE_ONLY)
    return rng.choice([h for h in DISPOSALS if h not in CLOSE_ONLY])


def cases(seed: int, k: int, tier: str):
    rng = rng_for(seed, ID, k)
    if k % 3 == 0:
        base = gen_base(rng, tier, faulty=rng.random() < 0.3)
        # avoid the documented close-only behaviour in the systematic stratum
        for op in base["ops"]:
            if op["op"] == "dispose" and op["how"] in CLOSE_ONLY:
                op["how"] = "close_release"
        yield base
        res = run(base)
        ops = res.info.get("io_ops", [])
        cap = 60 if tier == "quick" else 150
        steps = list(range(len(ops)))
        if len(steps) > cap:
            steps = sorted(rng.sample(steps, cap))
        for s in steps:
            kinds = {"connect": CONN_FAULTS, "send": SEND_FAULTS, "recv": RECV_FAULTS, "poll": ["intr"]}[ops[s]]
            for kind in kinds:
                sc = copy.deepcopy(base)
                f = {"at": s, "kind": kind}
                if ops[s] == "send" and rng.random() < 0.5:
                    f["after"] = "half"
                sc["step_faults"] = [f]
                yield sc
        for n in range(min(int(res.info.get("n_sleeps", 0)), 3)):
            sc = copy.deepcopy(base)
            sc["sleep_faults"] = [{"n": n, "kind": "intr"}]
            yield sc
    else:
        sc = gen_base(rng, tier, faulty=True)
        nd = rng.choice([0, 0, 1, 2])
        sc["dials"] = [rng.choice([{"k": "ok"}, {"k": "refused"}, {"k": "timeout"}, {"k": "intr"}, {"k": "slow", "d": rng.choice([0.5, 2.0, 5.0])}]) for _ in range(nd)]
        nf = rng.choice([0, 0, 1, 1, 2, 3])
        for _ in range(nf):
            sc["step_faults"].append({"at": rng.randrange(0, 40), "kind": rng.choice(["reset", "timeout", "eof", "intr", "epipe", "eio", "eprototype", "refused"]), "after": rng.choice([0, "half"])})
        if rng.random() < 0.12:
            # a wait between attempts, with an interrupt or an unusable header value in it: first answer asks to come back later
            ex0 = {"k": "resp", "status": rng.choice([429, 503, 413]), "headers": [["Retry-After", rng.choice(["1", "2", "soon"])]], "body": rng.choice(["later", "later", {"tag": 6000}]), "framing": rng.choice(["cl", "chunked"])}
            sc["exchanges"].insert(rng.choice([0, 0, 1]) if sc["exchanges"] else 0, ex0)
            if isinstance(ex0["body"], dict):
                sc["seg"] = {"mode": "whole"}
            if rng.random() < 0.7:
                sc["config"]["retries"] = rng.choice(["default", 2, {"total": 3, "backoff_factor": 1.0}])
            for o in sc["ops"]:
                if o["op"] == "request" and rng.random() < 0.7:
                    o["method"] = "GET"
                    o.pop("body", None)
        waits = any("Retry-After" in str(x.get("headers")) for x in sc["exchanges"]) or (isinstance(sc["config"]["retries"], dict) and sc["config"]["retries"].get("backoff_factor"))
        if rng.random() < (0.4 if waits else 0.05):
            sc["sleep_faults"] = [{"n": rng.choice([0, 0, 1]), "kind": "intr"}]
        if sc["config"]["path"].startswith("tunnel") and rng.random() < 0.3:
            sc["connects"] = [rng.choice([{"k": "resp", "status": 403}, {"k": "eof"}, {"k": "rst"}, {"k": "stall"}, {"k": "resp", "status": 200}, {"k": "garbage"}])]
        yield sc


# ----------------------------------------------------------------------------- run + oracle


def _dispose(r, how: str) -> None:
    if how == "read_all":
        r.read()
        r.release_conn()
    elif how == "data":
        r.data
        r.release_conn()
    elif how == "read_k_release":
        r.read(3)
        r.release_conn()
    elif how == "release_unread":
        r.release_conn()
    elif how == "drain":
        r.drain_conn()
        r.release_conn()
    elif how == "close_release":
        r.close()
        r.release_conn()
    elif how == "close_only":
        r.close()
    elif how == "stream_all":
        for _ in r.stream(7):
            pass
        r.release_conn()
    elif how == "stream_part_release":
        it = r.stream(5)
        next(it, None)
        r.release_conn()
    elif how == "read_all_only":
        r.read()
    elif how == "stream_all_only":
        for _ in r.stream(7):
            pass
    elif how == "iter_only":
        for _ in r:
            pass
    elif how == "read1_all_only":
        while r.read1(64):
            pass
    elif how == "readinto_all_only":
        buf = bytearray(64)
        while r.readinto(buf):
            pass
    elif how == "with_block":
        with r:
            pass
    else:
        raise ValueError(how)


def run(sc: dict) -> Result:
    from urllib3.exceptions import EmptyPoolError, FullPoolError

    res = Result()
    cfg = sc["config"]
    N_ = cfg["maxsize"]
    block = cfg["block"]
    w = H.std_world(sc)
    over = []

    def on_io(kind, sock):
        pass

    with H.RunEnv(), H.quiet_warnings(), w:
        try:
            cl = H.Client(cfg)
            pool = cl.pool
            live: dict = {}
            injected: list = []
            caller_abandoned: set = set()  # sockets still owned by a response at the moment the *caller* let that response go

            def check_open(where):
                if block:
                    n = len(w.open_sockets())
                    if n > N_:
                        H.collect()  # a socket only garbage still references is closed by deallocation
                        n = len(w.open_sockets())
                    if n > N_:
                        over.append((where, n))

            def guarded(where, fn):
                """Run one caller-visible call; classify what comes out."""
                n_intr0 = _intr_count(w)
                try:
                    out = fn()
                except W.SimInterrupt as e:
                    res.probes["interrupt_propagated"] += 1
                    H.strip_tb(e)
                    return ("intr", None)
                except W.SimHang as e:
                    res.bad("hang@" + where, str(e))
                    return ("hang", e)
                except W.StepLimit as e:
                    res.bad("no_termination@" + where, str(e))
                    return ("limit", e)
                except FullPoolError as e:
                    res.bad("slot_dup:FullPoolError@" + where, repr(e))
                    return ("exc", e)
                except Exception as e:
                    if _intr_count(w) > n_intr0:
                        res.bad("interrupt_swallowed@" + where, f"{type(e).__name__}: {e}")
                    if H.is_raw_io_error(e):
                        res.bad(f"raw_exception:{type(e).__name__}@{where}", repr(e))
                    elif not H.is_urllib3_error(e):
                        # not an I/O failure (e.g. io.IOBase's ValueError on a closed file): outside the statement
                        res.probes["other_exception:" + type(e).__name__] += 1
                    else:
                        res.probes["urllib3_error:" + type(H.root_reason(e)).__name__] += 1
                    H.strip_tb(e)
                    return ("exc", e)
                if _intr_count(w) > n_intr0:
                    res.bad("interrupt_swallowed@" + where, "call returned normally although an interrupt was raised inside it")
                return ("ok", out)

            for op in sc["ops"]:
                kind = op["op"]
                if kind == "advance":
                    w.advance(op["d"])
                elif kind == "close_pool":
                    # the pool is closed while responses may still be out: what they hold must be closed when they are finished
                    guarded("pool.close", pool.close)
                    res.probes["pool_closed_with_responses_out" if live else "pool_closed_mid_history"] += 1
                elif kind == "request":
                    if block and len(live) >= N_ and op.get("pool_timeout") is None:
                        # the caller itself holds every slot and would wait forever: not a history the property speaks about
                        res.info["invalid"] = "caller deadlock"
                        break
                    body, _ = H.mk_body(op.get("body"))
                    kw = dict(preload_content=cfg["preload"], release_conn=cfg["release_conn"], body=body)
                    if "pool_timeout" in op:
                        kw["pool_timeout"] = op["pool_timeout"]
                    if "redirect" in op:
                        kw["redirect"] = op["redirect"]
                    n_req0 = len(w.requests)
                    st, out = guarded("request", lambda: cl.urlopen(op["method"], op["path"], **kw))
                    if st == "ok":
                        live[op["id"]] = out
                        if len(w.requests) - n_req0 >= 2:
                            if any(300 <= x for x in [out.status]) or True:
                                res.probes["retry_happened"] += 1
                        if out.retries is not None and out.retries.history:
                            if any(h.redirect_location for h in out.retries.history):
                                res.probes["redirect_followed"] += 1
                    elif st == "exc" and len(w.requests) - n_req0 >= 2:
                        res.probes["retry_happened"] += 1
                    if st == "exc" and isinstance(out, EmptyPoolError):
                        res.probes["empty_pool_error"] += 1
                        if len(live) < N_:
                            res.bad("slot_lost@block", f"EmptyPoolError with only {len(live)} of {N_} leases outstanding")
                    out = None  # `live` holds the caller's only reference to the response
                    check_open("request")
                elif kind == "dispose":
                    r = live.pop(op["of"], None)
                    if r is None:
                        continue
                    how = op["how"]
                    if how == "drop":
                        _note_caller_abandoned(r, caller_abandoned)

                        def _drop():
                            nonlocal r
                            r = None
                            H.collect()
                        guarded("dispose:drop", _drop)
                    else:
                        guarded("dispose:" + how, lambda: _dispose(r, how))
                    if how in CLOSE_ONLY:
                        # (only these leave the response in possession of its connection by the caller's own choice; after a
                        #  disposal that releases, or reads to the end, the response must not hold an open socket any more)
                        _note_caller_abandoned(r, caller_abandoned)
                    r = None
                    check_open("dispose")
            # everything the caller still holds is now read and released
            for rid in list(live):
                r = live.pop(rid)
                guarded("dispose:final", lambda: _dispose(r, "read_all"))
                r = None
            out = None
            res.info["io_ops"] = list(w.io_ops)
            res.info["n_sleeps"] = len(w.clock.sleeps)
            res.info["K"] = w.io_step
            res.faults.update(w.faults_fired)
            if any(q.peer == "proxy" and q.method == "CONNECT" for q in w.requests):
                res.probes["tunnel_used"] += 1
            nontrivial_faults = sum(w.faults_fired.values())
            n_exch = w.exchange_count

            # ---- quiescent state: the public probe
            w.heal()
            H.collect()
            if over:
                res.bad("over_maxsize@" + over[0][0], f"{over[0][1]} sockets open on a block=True pool of maxsize {N_}")
            q = getattr(getattr(pool, "pool", None), "qsize", None)
            if q is not None and block:
                # (a non-blocking pool's queue is only a cache of capacity maxsize: fewer placeholders lose nothing)
                try:
                    qs = q()
                    if qs != N_:
                        res.bad("slot_lost@block", f"pool.pool.qsize()={qs}, maxsize={N_} at quiescence")
                except Exception:
                    pass
            skip_probe = bool(sc.get("close_without_probe"))
            before = set(s.sid for s in w.open_sockets())
            if skip_probe:
                # close the pool exactly as the history left it (placeholders and idle connections in whatever order they were
                # returned): the probe below would first replace every placeholder by a live connection
                res.probes["closed_without_probe"] += 1
            if len(before) > N_:
                res.bad("socket_leak@quiescent", f"{len(before)} sockets open with every response disposed, maxsize {N_}")
            leases = []
            want = N_ if block else N_ + 1
            for i in range(0 if skip_probe else want):
                st, out = guarded("probe", lambda: cl.urlopen("GET", f"/probe{i}", preload_content=False, pool_timeout=0, retries=False, redirect=False))
                if st == "ok":
                    leases.append(out)
                else:
                    if isinstance(out, EmptyPoolError):
                        res.bad("slot_lost@block", f"probe leased {i} of {N_}")
                    else:
                        res.bad("probe_failed", f"{type(out).__name__}: {out}")
                    break
            else:
                if not skip_probe:
                    res.probes["probe_block" if block else "probe_nonblock"] += 1
                conns = [r.connection for r in leases]
                if any(c is None for c in conns) or len(set(map(id, conns))) != len(conns):
                    res.bad("slot_dup@probe", "two leases returned the same connection object")
                socks = []
                for c in conns:
                    s = W._base_socket(getattr(c, "sock", None)) if c is not None else None
                    if isinstance(s, W.SimSocket):
                        socks.append(s.sid)
                if len(set(socks)) != len(socks):
                    res.bad("slot_dup@probe", "two leases share one socket")
                open_now = set(s.sid for s in w.open_sockets())
                orphans = open_now - set(socks)
                if orphans and not skip_probe:
                    res.bad("socket_leak@probe", f"sockets {sorted(orphans)} are open but belong to no lease (opened before probe: {sorted(before & orphans)})")
                if block and not skip_probe:
                    st, out = guarded("probe+1", lambda: cl.urlopen("GET", "/probe-extra", preload_content=False, pool_timeout=0, retries=False))
                    if st == "ok":
                        res.bad("slot_dup@block", f"lease {N_ + 1} succeeded on a block=True pool of maxsize {N_}")
                        leases.append(out)
                    elif not isinstance(out, EmptyPoolError):
                        res.bad("probe_failed", f"extra lease: {type(out).__name__}: {out}")
            for r in leases:
                guarded("probe-release", lambda: (r.read(), r.release_conn()))
            if not block and len(leases) == want and not skip_probe:
                n_open = len(w.open_sockets())
                if n_open != N_:
                    res.bad("slot_lost@nonblock" if n_open < N_ else "socket_leak@release", f"{n_open} sockets open after releasing {want} leases on a non-blocking pool of maxsize {N_}")
            leases = conns = r = None
            if sc.get("close_in_with"):
                try:
                    with pool:
                        raise W.SimInterrupt("raised inside `with pool:`")
                except W.SimInterrupt as e:
                    H.strip_tb(e)
                    res.probes["with_block_propagates"] += 1
                else:
                    res.bad("interrupt_swallowed@with_pool", "an interrupt raised inside `with pool:` did not leave the block")
            else:
                guarded("pool.close", pool.close)
            H.collect()
            left = w.open_sockets()
            if left:
                res.bad("socket_leak@close", f"{len(left)} sockets open after pool.close(): {left}")
            # "closed" = closed by urllib3; a socket that only went away because its last reference did is one urllib3 lost track of
            # (close_dealloc_fp -- close() was called and only an unread response's file object kept the descriptor -- is fine)
            by_gc = [e[2] for e in w.events if e[1] == "close_dealloc" and e[2] not in caller_abandoned]
            if by_gc:
                res.bad("socket_abandoned_unclosed", f"sockets {by_gc} were never closed by urllib3, only reclaimed when the socket object was deallocated")
            cl = pool = None
        except (W.SeamError,):
            raise
        res.digest = w.digest()
        res.trace = hash(w.abstract_trace())
        res.nontrivial = nontrivial_faults > 0 or n_exch >= 2
        res.sim_s = w.now - W.VClock.START
        res.steps = w.io_step
    return res


def _note_caller_abandoned(r, acc: set) -> None:
    """A response the caller drops while it still owns its connection (never released, close() not reached):
    that socket's fate is the caller's doing, not a socket urllib3 lost track of."""
    conn = getattr(r, "connection", None)
    s = W._base_socket(getattr(conn, "sock", None)) if conn is not None else None
    if isinstance(s, W.SimSocket):
        acc.add(s.sid)


def _intr_count(w) -> int:
    return sum(v for k, v in w.faults_fired.items() if k.endswith(":intr"))


# ----------------------------------------------------------------------------- minimisation


def shrinks(sc: dict):
    # drop operations (a request together with its disposal)
    ops = sc["ops"]
    reqs = [o["id"] for o in ops if o["op"] == "request"]
    for rid in reqs:
        c = copy.deepcopy(sc)
        c["ops"] = [o for o in ops if not ((o["op"] == "request" and o["id"] == rid) or (o["op"] == "dispose" and o["of"] == rid))]
        if c["ops"]:
            yield c
    for i, o in enumerate(ops):
        if o["op"] in ("advance", "dispose"):
            c = copy.deepcopy(sc)
            del c["ops"][i]
            yield c
    if sc.get("close_in_with"):
        c = copy.deepcopy(sc)
        del c["close_in_with"]
        yield c
    if sc.get("close_without_probe") is False:
        c = copy.deepcopy(sc)
        del c["close_without_probe"]
        yield c
    for key in ("step_faults", "sleep_faults", "dials", "exchanges", "connects"):
        for i in range(len(sc.get(key) or [])):
            c = copy.deepcopy(sc)
            del c[key][i]
            yield c
    for i, o in enumerate(ops):
        if o["op"] == "request":
            if o.get("body") is not None:
                c = copy.deepcopy(sc)
                c["ops"][i]["body"] = None
                c["ops"][i]["method"] = "GET"
                yield c
            elif o["method"] != "GET":
                c = copy.deepcopy(sc)
                c["ops"][i]["method"] = "GET"
                yield c
            for fld in ("pool_timeout", "redirect"):
                if fld in o:
                    c = copy.deepcopy(sc)
                    del c["ops"][i][fld]
                    yield c
        if o["op"] == "dispose" and o["how"] not in ("read_all", "close_only"):
            c = copy.deepcopy(sc)
            c["ops"][i]["how"] = "read_all"
            yield c
    cfg = sc["config"]
    for fld, simple in (("path", "direct"), ("maxsize", 1), ("retries", 0), ("preload", False), ("release_conn", None), ("timeout", 7.0), ("block", True)):
        if cfg.get(fld) != simple:
            c = copy.deepcopy(sc)
            c["config"][fld] = simple
            yield c
    if sc.get("seg", {}).get("mode") != "whole":
        c = copy.deepcopy(sc)
        c["seg"] = {"mode": "whole"}
        yield c
    for i, ex in enumerate(sc.get("exchanges") or []):
        if ex != {"k": "resp"}:
            c = copy.deepcopy(sc)
            c["exchanges"][i] = {"k": "resp"}
            yield c
    for i, f in enumerate(sc.get("step_faults") or []):
        if f.get("after"):
            c = copy.deepcopy(sc)
            c["step_faults"][i].pop("after")
            yield c


# ----------------------------------------------------------------------------- known findings


def _trig_close_only(sc, res):
    return sc["config"]["block"] and any(o["op"] == "dispose" and o["how"] in CLOSE_ONLY for o in sc["ops"])


def _neut_close_only(sc):
    for o in sc["ops"]:
        if o["op"] == "dispose" and o["how"] in CLOSE_ONLY:
            o["how"] = "close_release"
    return sc


def _trig_released_unread(sc, res):
    # release_conn=True hands the connection back while the caller still holds the unread response
    return sc["config"]["block"] and sc["config"].get("release_conn") is True and not sc["config"]["preload"]


def _neut_released_unread(sc):
    sc["config"]["release_conn"] = None
    return sc


KNOWN = {
    "KF-C01-close-only": (_trig_close_only, _neut_close_only),
    "KF-C01-released-unread-response-keeps-socket": (_trig_released_unread, _neut_released_unread),
}
