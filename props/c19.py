"""C19 -- socket waits never exceed the configured timeouts.
Engine: simnet + virtual clock: the world decides how long connect takes and when
the response arrives; the simulated socket records the timeout in force at every
connect/send/recv and the virtual instant at which each wait gave up."""
from __future__ import annotations

import copy

from simkit import harness as H
from simkit import tls as T
from simkit import world as W
from simkit.runner import Result, rng_for, stable_hash

ID = "C19"
ENGINE = "simnet"
LEVEL = "exploration"
TECHNIQUE = "deterministic network simulation on a virtual clock: Timeout grid x connect durations x response delays x placement x reuse; socket-level timeout observations vs an arithmetic reference"
LEVEL_TEXT = (
    "The (total, connect, read) grid over {unset, None, 0.5, 2, 10} plus invalid values x connect durations {0, 0.3, 1, 5, 20} x response delays x placement (pool, request, float "
    "shorthand) x fresh/reused connection x http/https x sequences of two requests sharing a pool Timeout; every wait happens on the simulated clock, the socket records the timeout "
    "handed to it in each phase (connect, send on fresh and reused connections, response wait) and when it expired; https through a CONNECT tunnel is one of the schemes. Contention stratum (simsched): one thread holds the only connection of a blocking pool for a while, another asks with a total -- the wait for the pooled connection must not be charged to its budget (every single pre-emption of sampled scenarios plus seeded schedules). Sampling of the full product."
)
LEVEL_NOTE = "trusted: the arithmetic reference in this module; the claim is about the value handed to the socket and the expiry instant on the simulated clock, not about the kernel honouring it"
N = {"quick": 40000, "thorough": 600000}
BUDGET = {"quick": 45, "thorough": 420}
RULE = "index k -> (Timeout spec, placement, scheme, connect duration, response delay, second request with its own delays and optional override). Non-trivial = some phase took virtual time; distinct = distinct scenario tuple."
ASSUMPTIONS = ["sends take no virtual time", "the default socket timeout (socket.getdefaulttimeout()) is None in the harness process"]
REQUIRED_PROBES = {
    "quick": ["connect_timeout_fired", "read_timeout_fired", "zero_budget_no_wait", "invalid_rejected", "request_override", "reused_connection", "https", "total_minus_elapsed", "second_request_fresh_clock", "send_on_reused_under_own_timeout", "tunnel", "waited_for_pooled_connection", "pool_wait_not_charged"],
    "thorough": ["connect_timeout_fired", "read_timeout_fired", "zero_budget_no_wait", "invalid_rejected", "request_override", "reused_connection", "https", "total_minus_elapsed", "second_request_fresh_clock", "send_on_reused_under_own_timeout", "tunnel", "waited_for_pooled_connection", "pool_wait_not_charged"],
}

VALS = ["unset", None, 0.5, 2, 10]
INVALID = [0, -1, -0.5, True, False, "3", "abc", [1]]
DURS = [0, 0.3, 0.5, 1, 2, 5, 10, 20]
DELAYS = [0, 0.4, 1.5, 6, 30]


def gen_timeout(rng):
    c = rng.random()
    if c < 0.12:
        return {"float": rng.choice([0.5, 2, 10, None])}
    spec = {}
    for fld in ("total", "connect", "read"):
        v = rng.choice(VALS)
        if v != "unset":
            spec[fld] = v
    return spec


def gen(rng):
    if rng.random() < 0.06:
        fld = rng.choice(["total", "connect", "read", "float"])
        return {"property": ID, "invalid": {fld: rng.choice(INVALID)}, "placement": rng.choice(["pool", "request"])}
    sc = {
        "property": ID,
        # "tunnel": https through a CONNECT proxy -- the tunnel is set up before the request proper, under the same connect timeout
        "scheme": rng.choice(["http", "http", "http", "https", "https", "tunnel"]),
        "pool_timeout": gen_timeout(rng) if rng.random() < 0.7 else "unset",
        "requests": [],
    }
    if rng.random() < 0.12:
        sc["sock_default"] = rng.choice([0.7, 4.0])  # socket.setdefaulttimeout() in force: what "unset" means -- and only "unset"
    for i in range(rng.choice([1, 2, 2])):
        rq = {"d": rng.choice(DURS), "w": rng.choice(DELAYS), "close_after": rng.random() < 0.3}
        if rng.random() < (0.5 if sc["pool_timeout"] != "unset" else 0.9):
            rq["timeout"] = gen_timeout(rng)
        if rng.random() < 0.2:
            rq["gap"] = rng.choice([1.0, 50.0])
        sc["requests"].append(rq)
    return sc


def warmup():
    """The contention stratum pre-empts at every line of the pool code."""
    import urllib3.connection
    import urllib3.connectionpool
    import urllib3.response

    from simkit import sched as S

    w = W.World({})
    w.default_listener = H.origin_factory()
    with w:
        p = H.u3().HTTPConnectionPool("h.test", 80, maxsize=1, block=True, retries=False, timeout=3.0)
        p.request("GET", "/warm").data
        p.close()
    S.instrument([urllib3.connectionpool, urllib3.response, urllib3.connection])


def gen_contention(rng):
    """block=True, maxsize=1: one thread holds the only connection for `hold` virtual seconds while another asks for it with a
    Timeout that has a total.  Waiting for a pooled connection is not connecting: it is not charged to the request's budget."""
    spec = {"total": rng.choice([2, 4, 10]), "read": rng.choice(["unset", 0.5, 3, None])}
    if spec["read"] == "unset":
        del spec["read"]
    if rng.random() < 0.5:
        spec["connect"] = rng.choice([0.5, 2, 10])
    c = rng.random()
    if c < 0.5:
        sched = {"strategy": "uniform", "p": rng.choice([0.02, 0.1, 0.3]), "seed": rng.randrange(1 << 30)}
    else:
        sched = {"strategy": "pct", "d": rng.choice([1, 2]), "steps": rng.choice([100, 300]), "seed": rng.randrange(1 << 30)}
    return {"property": ID, "kind": "contention", "spec": spec, "placement": rng.choice(["request", "pool"]), "hold": rng.choice([0.5, 1.5, 5.0, 20.0]), "w": rng.choice([0, 0.4, 6]), "schedule": sched}


def cases(seed, k, tier):
    rng = rng_for(seed, ID, k)
    if k % 401 == 5:
        base = gen_contention(rng)
        base["schedule"] = {"decisions": []}
        yield base
        steps_total = run(base).steps
        cap = 100 if tier == "quick" else 400
        steps = list(range(1, steps_total + 1))
        if len(steps) > cap:
            steps = sorted(rng.sample(steps, cap))
        for st in steps:
            sc = copy.deepcopy(base)
            sc["schedule"] = {"decisions": [[st, "T1"]]}
            yield sc
        return
    if k % 41 == 6:
        yield gen_contention(rng)
        return
    yield gen(rng)


def run_contention(sc) -> Result:
    from urllib3.exceptions import ReadTimeoutError

    from simkit import sched as S

    res = Result()
    urllib3 = H.u3()
    w = W.World({})
    w.default_listener = H.origin_factory()
    w.responder = lambda world, peer, req: {"k": "resp", "status": 200, "body": "ok", "delay": sc["hold"] if req.target == "/slow" else sc["w"]}
    spec = sc["spec"]
    with H.RunEnv(), H.quiet_warnings(), w:
        sched = S.Scheduler(w, sc["schedule"])
        kw = {"timeout": mk(spec)} if sc["placement"] == "pool" else {}
        pool = urllib3.HTTPConnectionPool("h.test", 80, maxsize=1, block=True, retries=False, **kw)
        from urllib3.util.timeout import Timeout

        def t0():
            try:
                return ("ok", pool.urlopen("GET", "/slow", timeout=Timeout(read=100.0), pool_timeout=200.0).status)
            except (S.SimDeadlock, S.TaskAbort, W.StepLimit, W.SimHang):
                raise
            except Exception as e:
                H.strip_tb(e)
                return ("exc", e)

        def t1():
            rkw = {"timeout": mk(spec)} if sc["placement"] == "request" else {}
            try:
                return ("ok", pool.urlopen("GET", "/fast", pool_timeout=200.0, **rkw).status)
            except (S.SimDeadlock, S.TaskAbort, W.StepLimit, W.SimHang):
                raise
            except Exception as e:
                H.strip_tb(e)
                return ("exc", e)

        sched.spawn("T0", t0)
        sched.spawn("T1", t1)
        sched.run()
        res.probes["contention_runs"] += 1
        if sched.verdict == "deadlock":
            res.bad("deadlock", "the two requests blocked for ever")
        ct, rt = reference(spec, 0)  # dialling takes no time here; time spent waiting for the pooled connection is not charged
        # the timeout in force at the first receive that follows T1's request
        to_now, sent_at, obs, sid1 = {}, None, None, None
        for e in w.events:
            if e[1] == "settimeout":
                to_now[e[2]] = e[3]
            elif e[1] == "request" and isinstance(e[3], tuple) and len(e[3]) > 3 and e[3][3] == "/fast":
                sent_at, sid1 = e[0], e[3][1]
            elif sent_at is not None and obs is None and e[2] == sid1 and e[1] in ("recv", "recv_timeout", "recv_block", "recv_eof"):
                obs = (to_now.get(e[2]),)
        waited = any(x[1] == "block" and x[2] == "notempty" for x in sched.trace)
        if waited:
            res.probes["waited_for_pooled_connection"] += 1
        out1 = sched.tasks[1].result
        tag = f"request /fast (spec {spec} at {sc['placement']}, other thread held the only connection for {sc['hold']} s, waited={waited})"
        if rt == 0:
            pass
        elif obs is None:
            if not (out1 and out1[0] == "exc"):
                res.bad("no_receive_observed", tag)
        elif not _same(obs[0], rt):
            res.bad("wrong_read_timeout", f"{tag}: socket had {obs[0]} while waiting for the response, reference min(read, total)={rt}")
        elif waited:
            res.probes["pool_wait_not_charged"] += 1
        if out1 and out1[0] == "exc" and isinstance(out1[1], ReadTimeoutError) and rt is not None and sc["w"] <= rt:
            res.bad("read_timeout_wrong_instant", f"{tag}: ReadTimeoutError although the response arrives after {sc['w']} s and the budget is {rt}")
        for t in sched.tasks:
            if t.error is not None and not isinstance(t.error, (S.SimDeadlock, S.TaskAbort)):
                res.bad(f"task_crashed:{type(t.error).__name__}", f"{t.name}: {t.error!r:.160}")
        res.info["switch_log"] = list(sched.switch_log)
        res.faults["preemptions"] += sched.preemptions
        res.digest = w.digest() + ":" + stable_hash(sched.trace)
        res.trace = hash((repr(spec), sc["placement"], sc["hold"], sc["w"], sched.signature()))
        res.nontrivial = waited
        res.sim_s = w.now - W.VClock.START
        res.steps = sched.steps
        for t in sched.tasks:
            t.result = t.error = t.fn = None
        pool.close()
    return res


def mk(spec):
    from urllib3.util.timeout import Timeout

    if "float" in spec:
        return spec["float"]
    return Timeout(**spec)


def num(v):
    return None if v in ("unset", None) else v


def reference(spec, elapsed, default=None):
    """(connect timeout, read timeout given `elapsed` seconds already spent connecting); None = wait for ever.
    `default`: the process-wide socket default (socket.setdefaulttimeout): what an *unset* connect/read value means; an explicit None
    still means no limit."""
    if "float" in spec:
        total, connect, read = None, spec["float"], spec["float"]
    else:
        total = num(spec.get("total", "unset"))
        # an unset connect/read falls back to the process default only when no total bounds it (with a total, "unset" and None both
        # mean "bounded by the total alone")
        dflt = lambda v: (default if total is None else None) if v == "unset" else v  # noqa: E731
        connect, read = dflt(spec.get("connect", "unset")), dflt(spec.get("read", "unset"))
    ct = connect if total is None else (total if connect is None else min(connect, total))
    if total is None:
        rt = read
    else:
        rem = max(0, total - elapsed)
        rt = rem if read is None else max(0, min(rem, read))
    return ct, rt


def run(sc: dict) -> Result:
    from urllib3.exceptions import ConnectTimeoutError, ReadTimeoutError
    from urllib3.util.timeout import Timeout

    if sc.get("kind") == "contention":
        return run_contention(sc)
    res = Result()
    urllib3 = H.u3()
    if "invalid" in sc:
        (fld, val), = sc["invalid"].items()
        try:
            if fld == "float":
                if sc["placement"] == "pool":
                    urllib3.HTTPConnectionPool("h.test", 80, timeout=val)
                else:
                    Timeout.from_float(val)
            else:
                Timeout(**{fld: val})
            res.bad("invalid_timeout_accepted", f"{fld}={val!r}")
        except ValueError:
            res.probes["invalid_rejected"] += 1
        except Exception as e:
            res.bad(f"invalid_timeout_wrong_error:{type(e).__name__}", f"{fld}={val!r}: {e!r}")
        res.trace = hash(repr(sc))
        res.digest = "invalid"
        res.nontrivial = True
        return res
    sock_default = sc.get("sock_default")
    if sock_default is None:
        return _run_grid(sc, None)
    import socket as _rs

    _rs.setdefaulttimeout(sock_default)  # (the real module: whichever way the library imports the function, it sees this value)
    try:
        return _run_grid(sc, sock_default)
    finally:
        _rs.setdefaulttimeout(None)


def _run_grid(sc, sock_default):
    from urllib3.exceptions import ConnectTimeoutError, ReadTimeoutError
    from urllib3.util.timeout import Timeout

    res = Result()
    urllib3 = H.u3()
    https = sc["scheme"] in ("https", "tunnel")
    tunnel = sc["scheme"] == "tunnel"
    dials = []
    exchanges = []
    w = W.World({})
    if tunnel:
        w.default_listener = H.origin_factory("proxy", "proxy")
        w.tunnel_factory = lambda w_, chan, target: H.tls_origin_factory()(w_, chan)
    else:
        w.default_listener = H.tls_origin_factory() if https else H.origin_factory()
    with H.RunEnv(), H.quiet_warnings(), w:
        kw = {}
        if sc["pool_timeout"] != "unset":
            kw["timeout"] = mk(sc["pool_timeout"])
        pool_to_obj = kw.get("timeout")
        pool_fields_before = _fields(pool_to_obj)
        if tunnel:
            pm_ = urllib3.ProxyManager("http://proxy.test:3128", ca_certs=T.CA_GOOD, retries=False, **kw)
            pool = pm_.connection_from_url("https://h.test/")
            res.probes["tunnel"] += 1
        elif https:
            pool = urllib3.HTTPSConnectionPool("h.test", 443, ca_certs=T.CA_GOOD, retries=False, **kw)
        else:
            pool = urllib3.HTTPConnectionPool("h.test", 80, retries=False, **kw)
        have_conn = False  # an idle keep-alive connection is available
        to_now: dict = {}  # socket id -> timeout currently set on it (kept across requests: a pooled socket keeps its last value)
        ev_seen = 0
        for i, rq in enumerate(sc["requests"]):
            if rq.get("gap"):
                w.advance(rq["gap"])
            spec = rq.get("timeout", sc["pool_timeout"])
            if spec == "unset":
                spec = {}
            if "timeout" in rq:
                res.probes["request_override"] += 1
            fresh = not have_conn
            d = rq["d"] if fresh else 0
            ct, rt = reference(spec, d if fresh else 0, sock_default)
            w.dials.clear()
            w.exchanges.clear()
            if fresh:
                w.dials.append({"k": "slow", "d": d} if d else {"k": "ok"})
            ex = {"k": "resp", "status": 200, "body": "ok", "delay": rq["w"]}
            if rq["close_after"]:
                ex["keepalive"] = False
            w.exchanges.append(ex)
            t0 = w.now
            n_ev0 = len(w.events)
            rkw = {}
            if "timeout" in rq:
                rkw["timeout"] = mk(rq["timeout"])
            req_to_obj = rkw.get("timeout")
            req_fields_before = _fields(req_to_obj)
            outcome = None
            try:
                r = pool.urlopen("GET", f"/r{i}", **rkw)
                outcome = ("ok", r.status)
            except (W.SimHang, W.StepLimit) as e:
                outcome = ("hang", e)
            except Exception as e:
                H.strip_tb(e)
                outcome = ("exc", e)
            t1 = w.now
            evs = w.events[n_ev0:]
            obs_connect = [e[3][3] for e in evs if e[1] == "dial"]
            # timeout in force at the first receive that follows the request's send
            obs_read = None
            sent = False
            recv_after_send = 0
            cur_to = {}
            for e in evs:
                if e[1] == "settimeout":
                    cur_to[e[2]] = e[3]
                if e[1] == "request" and not (isinstance(e[3], tuple) and len(e[3]) > 2 and e[3][2] == "CONNECT"):
                    sent = True
                if sent and e[1] in ("recv", "recv_timeout", "recv_block", "recv_eof"):
                    if obs_read is None:
                        obs_read = ("val", cur_to.get(e[2], sock_default))
                    recv_after_send += 1
            tag = f"request {i} ({'fresh' if fresh else 'reused'} connection, spec {spec}, d={d}, w={rq['w']})"
            # ---- the request is written under a timeout of *this* request (urllib3 uses the connect timeout for sending), never under
            #      whatever the previous request left on a pooled socket
            foreign = None
            for e in w.events[ev_seen:]:
                if e[1] == "settimeout":
                    to_now[e[2]] = e[3]
                elif e[1] == "send" and e[0] >= n_ev0 and foreign is None:
                    obs = to_now.get(e[2], sock_default)
                    allowed = [ct, rt] + ([reference(spec, 0, sock_default)[1]] if fresh else [])
                    if not any(_same(obs, a) for a in allowed):
                        foreign = (obs,)
                    elif not fresh:
                        res.probes["send_on_reused_under_own_timeout"] += 1
            ev_seen = len(w.events)
            if foreign is not None:
                res.bad("send_under_foreign_timeout", f"{tag}: the request was written while the socket's timeout was {foreign[0]}; this request configures connect={ct}, read={rt}")
                break
            # ---- expectations
            if fresh:
                if not obs_connect:
                    res.bad("no_connect_observed", tag)
                elif not _same(obs_connect[0], ct):
                    res.bad("wrong_connect_timeout", f"{tag}: socket had {obs_connect[0]} during connect, reference min(connect,total)={ct}")
                    break
            if fresh and ct is not None and d > ct:
                # (through a proxy the connect time-out is reported as ProxyError carrying the ConnectTimeoutError)
                if not (outcome[0] == "exc" and (isinstance(outcome[1], ConnectTimeoutError) or (tunnel and isinstance(H.root_reason(outcome[1]), ConnectTimeoutError)))):
                    res.bad("connect_timeout_not_raised", f"{tag}: outcome {outcome!r:.120}")
                elif abs((t1 - t0) - ct) > 1e-6:
                    res.bad("connect_timeout_wrong_instant", f"{tag}: gave up after {t1 - t0}, configured {ct}")
                else:
                    res.probes["connect_timeout_fired"] += 1
                have_conn = False
                continue
            if outcome[0] == "hang":
                if rt is None and ct is None or True:
                    res.bad("hang", f"{tag}: {outcome[1]}")
                break
            if rt == 0:
                if not (outcome[0] == "exc" and isinstance(outcome[1], ReadTimeoutError)):
                    res.bad("zero_read_budget_not_raised", f"{tag}: outcome {outcome!r:.120}")
                elif recv_after_send or abs((t1 - t0) - d) > 1e-6:
                    res.bad("zero_read_budget_waited", f"{tag}: {recv_after_send} receives, {t1 - t0 - d} s after the connect")
                else:
                    res.probes["zero_budget_no_wait"] += 1
                have_conn = False
                continue
            if obs_read is None:
                res.bad("no_receive_observed", tag)
                break
            if not _same(obs_read[1], rt):
                res.bad("wrong_read_timeout", f"{tag}: socket had {obs_read[1]} while waiting for the response, reference min(read, total - {d})={rt}")
                break
            if obs_read[1] is not None and obs_read[1] < 0:
                res.bad("negative_timeout", tag)
            spec_total = None if "float" in spec else num(spec.get("total", "unset"))
            if spec_total is not None and fresh and d > 0:
                res.probes["total_minus_elapsed"] += 1
            if rt is not None and rq["w"] > rt:
                if not (outcome[0] == "exc" and isinstance(outcome[1], ReadTimeoutError)):
                    res.bad("read_timeout_not_raised", f"{tag}: outcome {outcome!r:.120}")
                elif abs((t1 - t0) - (d + rt)) > 1e-6:
                    res.bad("read_timeout_wrong_instant", f"{tag}: gave up {t1 - t0 - d} s after connecting, budget {rt}")
                else:
                    res.probes["read_timeout_fired"] += 1
                have_conn = False
                continue
            if outcome[0] != "ok":
                res.bad("unexpected_failure", f"{tag}: {outcome!r:.160}")
                break
            if not fresh:
                res.probes["reused_connection"] += 1
            if i > 0:
                res.probes["second_request_fresh_clock"] += 1
            if https:
                res.probes["https"] += 1
            have_conn = not rq["close_after"]
            if req_to_obj is not None and _fields(req_to_obj) != req_fields_before:
                res.bad("caller_timeout_mutated", f"{req_fields_before} -> {_fields(req_to_obj)}")
        if pool_to_obj is not None and isinstance(pool_to_obj, Timeout) and _fields(pool_to_obj) != pool_fields_before:
            res.bad("pool_timeout_mutated", f"{pool_fields_before} -> {_fields(pool_to_obj)}")
        pool.close()
        res.faults.update(w.faults_fired)
        res.digest = w.digest()
        res.trace = hash(repr(sc))
        res.nontrivial = any(rq["d"] or rq["w"] for rq in sc["requests"])
        res.sim_s = w.now - W.VClock.START
        res.steps = w.io_step
    return res


def _fields(t):
    from urllib3.util.timeout import Timeout

    if isinstance(t, Timeout):
        return (t.total, t._connect, t._read, t._start_connect)
    return t


def _same(a, b):
    if a is None or b is None:
        return a is None and b is None
    return abs(float(a) - float(b)) < 1e-9


def shrinks(sc):
    if "invalid" in sc:
        return
    if sc.get("kind") == "contention":
        sch = sc["schedule"]
        if "decisions" not in sch:
            r = run(sc)
            c = copy.deepcopy(sc)
            c["schedule"] = {"decisions": [list(x) for x in r.info.get("switch_log", [])]}
            yield c
        else:
            dec = sch["decisions"]
            for i in range(len(dec)):
                c = copy.deepcopy(sc)
                c["schedule"] = {"decisions": dec[:i] + dec[i + 1 :]}
                yield c
        return
    if len(sc["requests"]) > 1:
        for i in range(len(sc["requests"])):
            c = copy.deepcopy(sc)
            del c["requests"][i]
            yield c
    if sc["scheme"] != "http":
        c = copy.deepcopy(sc)
        c["scheme"] = "http"
        yield c
    if sc.get("sock_default") is not None:
        c = copy.deepcopy(sc)
        del c["sock_default"]
        yield c
    if sc["pool_timeout"] != "unset":
        c = copy.deepcopy(sc)
        c["pool_timeout"] = "unset"
        yield c
    for i, rq in enumerate(sc["requests"]):
        for fld, simple in (("d", 0), ("w", 0), ("close_after", False)):
            if rq[fld] != simple:
                c = copy.deepcopy(sc)
                c["requests"][i][fld] = simple
                yield c
        for fld in ("gap", "timeout"):
            if fld in rq:
                c = copy.deepcopy(sc)
                del c["requests"][i][fld]
                yield c
        if isinstance(rq.get("timeout"), dict):
            for f2 in list(rq["timeout"]):
                c = copy.deepcopy(sc)
                del c["requests"][i]["timeout"][f2]
                yield c
    if isinstance(sc["pool_timeout"], dict):
        for f2 in list(sc["pool_timeout"]):
            c = copy.deepcopy(sc)
            del c["pool_timeout"][f2]
            yield c


KNOWN = {}
