"""C15 -- what goes on the wire is exactly what the URL says.
Engine: simnet (wildcard DNS, in-memory TLS origins, forwarding/tunnelling proxy)."""
from __future__ import annotations

import copy
import re

from props import _redir as R
from simkit import harness as H
from simkit import httpwire as HW
from simkit import peers as P
from simkit import tls as T
from simkit import world as W
from simkit.runner import Result, rng_for

import os

# https runs use cert_reqs=CERT_NONE (only naming is observed), so urllib3 loads the machine's default trust store for every
# connection -- tens of milliseconds for the system bundle.  Point OpenSSL at the small throw-away CA instead.
os.environ["SSL_CERT_FILE"] = T.CA_GOOD
os.environ["SSL_CERT_DIR"] = "/nonexistent-verif-certdir"

ID = "C15"
ENGINE = "simnet"
LEVEL = "exploration"
TECHNIQUE = "deterministic network simulation with wildcard DNS and TLS observers: dial address, Host, TLS server name and request target vs an independent RFC 3986 reading of the URL"
LEVEL_TEXT = (
    "Seeded http/https URLs (names, mixed case, trailing dot, IDN, IPv4, bracketed IPv6 with and without zone, absent/default/odd/zero-padded ports, userinfo, dot-segments, illegal "
    "characters, empty path with query, fragments) through PoolManager and ProxyManager; observers at the simulated resolver, TCP layer, TLS layer and HTTP peers record what was "
    "dialled, named and requested, equivalent URL pairs must share one connection and produce identical bytes, and look-alike pairs (trailing dot) must each be dialled under their own name. Sampling."
)
LEVEL_NOTE = "trusted: the reference URL reading in this module (authority = up to the first '/', '?', '#'; host after the last '@'); https runs use cert_reqs=CERT_NONE because only naming is observed"
N = {"quick": 30000, "thorough": 500000}
BUDGET = {"quick": 45, "thorough": 420}
RULE = "index k -> URL built from seeded components (+ optionally an equivalent variant requested second) x path {direct, proxy}. Non-trivial = any non-plain component; distinct = distinct (URL, variant, path)."
ASSUMPTIONS = [
    "a trailing dot may or may not be kept in the DNS query (both name the same host); it must be absent from Host and the TLS server name",
    "an IPv6 zone id may or may not appear in the Host field (the statement only excludes it from the TLS server name)",
    "a path/query mixing valid %XX escapes with stray '%' may be encoded either way",
]
REQUIRED_PROBES = {
    "quick": ["https", "ipv6", "ipv6_zone", "idn", "trailing_dot", "userinfo", "fragment", "dot_segments", "pair_shared_socket", "sibling_dialled_under_own_name", "second_life_checked", "tunnel_setup_fault", "resolver_failed_once", "reached_by_redirect", "proxy_forward", "proxy_tunnel", "default_port_explicit", "empty_path_query"],
    "thorough": ["https", "ipv6", "ipv6_zone", "idn", "trailing_dot", "userinfo", "fragment", "dot_segments", "pair_shared_socket", "sibling_dialled_under_own_name", "second_life_checked", "tunnel_setup_fault", "resolver_failed_once", "reached_by_redirect", "proxy_forward", "proxy_tunnel", "default_port_explicit", "empty_path_query"],
}

HOSTS = ["h.test", "H.Test", "A.B.EXAMPLE.test", "h.test.", "bücher.test", "BÜCHER.test", "10.0.0.5", "[fd00::5]", "[FD00::5]", "[fe80::1%25eth0]", "[fe80::1%eth0]", "xn--bcher-kva.test"]
PATHS = ["", "/", "/a/b", "/a/../b", "/./a/./b/", "/a%20b", "/a b", "/ä", "//double", "/a/b/../../../c", "/%7euser", "/a%2fb", "/x%zz", "/p;v=1", "/a/.", "/%41%zz"]
QUERIES = [None, None, "", "x=1", "x=a b", "q=ä", "a=%26&b=%zz", "u=http://x/?y#", "k=v&k=w"]
FRAGS = [None, None, "frag", "f?x=1", "a b"]
USERINFO = [None, None, None, "user", "user:pw", "u%40x:p%3aw", "us er:pä"]


def gen(rng):
    scheme = rng.choice(["http", "http", "https", "HTTP", "hTTps"])
    host = rng.choice(HOSTS)
    s = scheme.lower()
    port = rng.choice([None, None, None, "default", "odd", "padded", "padded_default"])
    if port == "default":
        ps = str(R.DEFAULT_PORT[s])
    elif port == "odd":
        ps = str(rng.choice([8080, 8443, 65535, 1, 81]))
    elif port == "padded":
        ps = "0" + str(rng.choice([8080, 81]))
    elif port == "padded_default":
        ps = "00" + str(R.DEFAULT_PORT[s])
    else:
        ps = None
    ui = rng.choice(USERINFO)
    path = rng.choice(PATHS)
    q = rng.choice(QUERIES)
    f = rng.choice(FRAGS)
    url = scheme + "://" + (ui + "@" if ui is not None else "") + host + (":" + ps if ps is not None else "") + path
    if q is not None:
        url += "?" + q
    if f is not None:
        url += "#" + f
    sc = {"property": ID, "url": url, "via": rng.choice(["direct", "direct", "direct", "proxy"])}
    if sc["via"] == "proxy" and rng.random() < 0.3:
        sc["proxy_port"] = "default"  # the proxy's own URL carries no port
    if s == "http" and rng.random() < 0.1:
        sc["prelude_refused"] = True
    if sc["via"] == "proxy" and rng.random() < 0.4:
        # the manager is given proxy headers (one mapping shared by all its pools), and after the URL under test a plain-http URL
        # on another origin is requested through it: what the wire says there must be what *that* URL says
        sc["proxy_headers"] = True
        sc["proxy_then"] = rng.choice(["http://other.test:8080/two", "http://other.test/two?x=1"])
    if rng.random() < 0.12 and q != "":  # (urljoin drops an empty query from a Location: another URL, not this check's business)
        # the URL is reached by following a redirect from another host through the same manager: everything the wire says about the
        # second request must still be what *its* URL says
        sc["via_redirect_from"] = "http://r.test/go"
        return sc
    if sc["via"] == "direct" and not host.startswith("[") and not host[0].isdigit() and rng.random() < 0.12:
        # the resolver fails once (EAI_AGAIN) for the URL's spelling of the host; with retries the next attempt succeeds
        sc["dns_fail_once"] = True
    if sc["via"] == "proxy" and s == "https" and rng.random() < 0.3:
        # the proxy drops the first connection while the tunnel is being set up (EOF or reset instead of an answer to CONNECT)
        sc["connect_fault"] = rng.choice(["eof", "rst"])
    if rng.random() < 0.35:
        # an equivalent spelling: letter case of scheme/host, explicit default port
        h2 = host.swapcase() if not host.startswith("[") else host
        if "%" in h2:
            h2 = host
        p2 = ps
        if ps is None and rng.random() < 0.5:
            p2 = str(R.DEFAULT_PORT[s])
        elif ps is not None and int(ps) == R.DEFAULT_PORT[s] and rng.random() < 0.5:
            p2 = None
        sc["variant"] = scheme.swapcase() + "://" + (ui + "@" if ui is not None else "") + h2 + (":" + p2 if p2 is not None else "") + path + ("?" + q if q is not None else "") + ("#" + f if f is not None else "")
    elif rng.random() < 0.25 and not host.startswith("[") and not host[0].isdigit():
        # a *different* host that only looks alike: "h.test." is a fully qualified DNS name, "h.test" is subject to the resolver's
        # search list.  Each of the two requests must be dialled under its own spelling.
        h2 = host[:-1] if host.endswith(".") else host + "."
        sc["sibling"] = scheme + "://" + (ui + "@" if ui is not None else "") + h2 + (":" + ps if ps is not None else "") + path + ("?" + q if q is not None else "") + ("#" + f if f is not None else "")
        if rng.random() < 0.5:
            sc["url"], sc["sibling"] = sc["sibling"], sc["url"]
        sc["first_closes"] = rng.random() < 0.5
    elif rng.random() < 0.2:
        # the same URL again after the server closed the first connection: the pooled connection object starts a second life
        # and must be set up (dial, tunnel, TLS server name) exactly like the first time
        sc["repeat"] = True
        sc["first_closes"] = True
    return sc


def cases(seed, k, tier):
    yield gen(rng_for(seed, ID, k))


# ----------------------------------------------------------------------------- independent reading of the URL


def read_url(url: str) -> dict:
    s, a, p, q, f = R.split(url)
    scheme = s.lower()
    hostport = a.rpartition("@")[2]
    userinfo = a.rpartition("@")[0] if "@" in a else None
    if hostport.startswith("["):
        host = hostport[1 : hostport.index("]")]
        rest = hostport[hostport.index("]") + 1 :]
        port = rest[1:] if rest.startswith(":") else ""
        v6 = True
    else:
        host, _, port = hostport.partition(":")
        v6 = False
    port_i = int(port) if port else R.DEFAULT_PORT[scheme]
    zone = None
    if v6:
        addr, sep, zone = host.partition("%")
        if sep:
            zone = zone[2:] if zone.startswith("25") and zone != "25" else zone
        else:
            zone = None
        host_norm = addr.lower()
    else:
        h = host.lower()
        labels = h.split(".")
        out = []
        for lab in labels:
            if lab and not lab.isascii():
                import unicodedata

                lab = "xn--" + unicodedata.normalize("NFC", lab).encode("punycode").decode("ascii")
            out.append(lab)
        host_norm = ".".join(out)
    path = R.remove_dot_segments(p) if p else ""
    return {"scheme": scheme, "host": host_norm, "port": port_i, "v6": v6, "zone": zone, "path": path, "query": q, "userinfo": userinfo, "fragment": f, "default_port": port_i == R.DEFAULT_PORT[scheme]}


def want_targets(u: dict) -> set[str]:
    t = u["path"] or "/"
    if u["query"] is not None:
        t += "?" + u["query"]
    return HW.ref_targets(t)


def want_host_field(u: dict, with_zone: bool) -> str:
    h = u["host"].rstrip(".")
    if u["v6"]:
        h = "[" + h + ("%" + u["zone"] if (with_zone and u["zone"]) else "") + "]"
    if not u["default_port"]:
        h += f":{u['port']}"
    return h


def run(sc: dict) -> Result:
    res = Result()
    urllib3 = H.u3()
    wsc = {"dns_wildcard": True}
    if sc.get("dns_fail_once"):
        wsc["dns_faults"] = {read_url(sc["url"])["host"]: 1, R.split(sc["url"])[1].rpartition("@")[2].partition(":")[0]: 1}
    w = W.World(wsc)
    via = sc["via"]

    def origin(world, chan):
        port = chan.peer_addr[1]
        ip = chan.peer_addr[0]
        name = f"{ip}:{port}"
        if world.tags.get("tls_ports", {}).get(port):
            return T.TlsPeer(world, chan, lambda w_, c: P.HttpPeer(w_, c, name, "origin", True), cert="any", name=name)
        return P.HttpPeer(world, chan, name, "origin")

    urls = [sc["url"]] + ([sc["variant"]] if sc.get("variant") else []) + ([sc["sibling"]] if sc.get("sibling") else []) + ([sc["url"]] if sc.get("repeat") else [])
    if sc.get("first_closes"):
        w.exchanges.append({"k": "resp", "status": 200, "keepalive": False})
    u0 = read_url(sc["url"])
    if via == "proxy":
        if sc.get("connect_fault"):
            w.connects.append({"k": sc["connect_fault"]})
        pport = 80 if sc.get("proxy_port") == "default" else 3128  # (a proxy URL without a port means port 80, like any http URL)
        w.listen(None, pport, H.origin_factory("proxy", "proxy"))
        w.tunnel_factory = lambda w_, chan, target: T.TlsPeer(w_, chan, lambda w2, c: P.HttpPeer(w2, c, "origin-in-tunnel", "origin", True), cert="any", name="origin-in-tunnel")
    else:
        w.tags["tls_ports"] = {u0["port"]: u0["scheme"] == "https"}
        w.default_listener = origin
    if sc.get("via_redirect_from"):
        w.responder = lambda world, peer, req: ({"k": "resp", "status": 302, "headers": [["Location", sc["url"].split("#")[0]]], "body": ""} if req.target.endswith("/go") else None)
        if via == "direct":
            w.tags.setdefault("tls_ports", {})[80] = False
    with H.RunEnv(), H.quiet_warnings(), w:
        kw = dict(cert_reqs="CERT_NONE", timeout=3.0, retries=(2 if (sc.get("dns_fail_once") or sc.get("via_redirect_from")) else False))
        if via == "proxy" and sc.get("proxy_headers"):
            kw["proxy_headers"] = {"X-Proxy-Id": "p1"}
        pm = urllib3.ProxyManager("http://proxy.test" if sc.get("proxy_port") == "default" else "http://proxy.test:3128", **kw) if via == "proxy" else urllib3.PoolManager(**kw)
        outs = []
        if sc.get("prelude_refused"):
            # a request to the same URL that is refused while it is being assembled (a header value with a line break): whatever it
            # left in the connection object must not show up in front of the request that follows
            try:
                pm.request("GET", sc["url"], headers={"X-Refused": "a\r\nInjected: 1"})
                res.probes["prelude_not_refused"] += 1
            except (W.SimHang, W.StepLimit) as e:
                res.bad("hang", str(e))
            except Exception as e:
                H.strip_tb(e)
                res.probes["prelude_refused"] += 1
        for url in urls:
            try:
                r = pm.request("GET", sc["via_redirect_from"] if sc.get("via_redirect_from") else url)
                outs.append(("ok", r.status))
            except (W.SimHang, W.StepLimit) as e:
                res.bad("hang", str(e))
                outs.append(("err", e))
            except Exception as e:
                H.strip_tb(e)
                outs.append(("err", e))
        if via == "direct":
            # the resolver is only ever asked for a host exactly as one of the scenario's URLs spells it (trailing dot included)
            allowed = set()
            for u_ in urls:
                ru = read_url(u_)
                allowed.add((ru["host"] + ("%" + ru["zone"] if ru["zone"] else "")).lower())
                allowed.add(R.split(u_)[1].rpartition("@")[2].partition(":")[0].lower())  # as written (IDN before encoding)
            if sc.get("via_redirect_from"):
                allowed.add("r.test")
            for e_ in w.events:
                if e_[1] == "dns" and e_[3][0].lower() not in allowed and not u0["v6"]:
                    res.bad("wrong_host_dialled", f"the resolver was asked for {e_[3][0]!r}; the URLs name {sorted(allowed)!r}")
                    break
            if sc.get("dns_fail_once") and w.faults_fired.get("dns:eai_again"):
                res.probes["resolver_failed_once"] += 1
        if via == "proxy" and u0["scheme"] == "https":
            # whatever became of the request: no connection to the proxy for an https URL may begin with anything but CONNECT
            for s_ in w.sockets:
                if s_.sent and not bytes(s_.sent).startswith(b"CONNECT ") and not bytes(s_.sent).startswith(b"GET http://r.test/go "):
                    res.bad("https_not_tunnelled", f"a connection to the proxy for {sc['url']!r} began with {bytes(s_.sent[:24])!r} instead of CONNECT")
                    break
            if sc.get("connect_fault") and w.faults_fired:
                res.probes["tunnel_setup_fault"] += 1
        if outs[0][0] == "err":
            res.probes["rejected:" + type(outs[0][1]).__name__] += 1
        else:
            check(sc, w, u0, res, via)
            if sc.get("sibling") and outs[1][0] == "ok" and via == "direct":
                check_second(sc["sibling"], w, res)
            if sc.get("repeat"):
                if via == "direct" and outs[1][0] == "ok":
                    check_second(sc["url"], w, res)
                    res.probes["second_life_checked"] += 1
                elif via == "proxy":
                    check_second_life_proxy(sc["url"], w, res, outs[1][0] == "ok")
            if sc.get("variant") and len(urls) == 2 and outs[1][0] == "ok" and not res.violations:
                reqs = [q for q in w.requests if q.method != "CONNECT"]
                if len(reqs) == 2:
                    if reqs[0].sid != reqs[1].sid:
                        res.bad("equivalent_urls_different_connections", f"{urls[0]!r} and {urls[1]!r} were served by sockets {reqs[0].sid} and {reqs[1].sid}")
                    elif reqs[0].raw_head != reqs[1].raw_head:
                        res.bad("equivalent_urls_different_bytes", f"{reqs[0].raw_head!r} vs {reqs[1].raw_head!r}")
                    else:
                        res.probes["pair_shared_socket"] += 1
        if via == "proxy" and sc.get("proxy_then") and outs[0][0] == "ok" and not sc.get("via_redirect_from"):
            n_before = len(w.requests)
            try:
                pm.request("GET", sc["proxy_then"])
            except (W.SimHang, W.StepLimit) as e:
                res.bad("hang", str(e))
            except Exception as e:
                H.strip_tb(e)
            later = [q for q in w.requests[n_before:] if q.method != "CONNECT"]
            if later:
                u2 = read_url(sc["proxy_then"])
                got2 = read_url(later[0].target) if "://" in later[0].target else None
                if got2 is None or (got2["scheme"], got2["host"], got2["port"]) != (u2["scheme"], u2["host"], u2["port"]):
                    res.bad("wrong_target", f"forwarded target {later[0].target!r} for {sc['proxy_then']!r}")
                check_host_field(later[0], u2, res)
                res.probes["proxy_second_origin_checked"] += 1
        pm.clear()
        for k_, cond in (("https", u0["scheme"] == "https"), ("ipv6", u0["v6"]), ("ipv6_zone", bool(u0["zone"])), ("idn", "xn--" in u0["host"]), ("trailing_dot", u0["host"].endswith(".")),
                         ("userinfo", u0["userinfo"] is not None), ("fragment", u0["fragment"] is not None), ("dot_segments", "/." in sc["url"]), ("default_port_explicit", re.search(r":0*(80|443)(/|\?|#|$)", sc["url"]) is not None),
                         ("empty_path_query", u0["path"] == "" and u0["query"] is not None)):
            if cond and outs[0][0] == "ok":
                res.probes[k_] += 1
        res.digest = w.digest()
        res.trace = hash((sc["url"], sc.get("variant"), via))
        res.nontrivial = sc["url"] not in ("http://h.test/", "http://h.test")
        res.sim_s = w.now - W.VClock.START
        res.steps = w.io_step
    return res


def check(sc, w, u, res, via):
    src = [q for q in w.requests if q.target.endswith("/go")]
    src_sids = {q.sid for q in src} if (src and via == "direct") else set()
    reqs = [q for q in w.requests if not q.target.endswith("/go")]
    if sc.get("via_redirect_from"):
        if not src or not reqs:
            return  # the redirect was not followed (the Location could not be used): nothing to judge
        res.probes["reached_by_redirect"] += 1
    if not reqs:
        res.bad("nothing_sent", "request() returned but no request reached any peer")
        return
    first = reqs[0]
    # ---- where the TCP connection went
    dials = [e[3] for e in w.events if e[1] == "dial" and e[2] not in src_sids]
    lookups = [e[3][0] for e in w.events if e[1] == "dns" and e[3][0] != "r.test"]
    if via == "direct":
        host_q = lookups[0] if lookups else None
        want_dns = u["host"] + ("%" + u["zone"] if u["zone"] else "")
        if host_q is None or host_q.lower() != want_dns.lower():
            res.bad("wrong_host_dialled", f"resolver was asked for {host_q!r}, the URL's host is {want_dns!r}")
        if not dials or dials[0][1] != u["port"]:
            res.bad("wrong_port_dialled", f"connected to port {dials[0][1] if dials else None}, URL says {u['port']}")
        req = first
        tgt_ok = want_targets(u)
        if req.target not in tgt_ok:
            res.bad("wrong_target", f"target {req.target!r}, reference {sorted(tgt_ok)!r}")
        check_host_field(req, u, res)
        if u["scheme"] == "https":
            wraps = [t for t in w.tls_log if t[0] == "client_wrap"]
            check_sni(wraps[0][2] if wraps else None, u, res)
    else:
        if not dials or dials[0][1] != (80 if sc.get("proxy_port") == "default" else 3128) or (lookups and lookups[0] != "proxy.test"):
            res.bad("proxy_bypassed", f"dials {dials}, lookups {lookups}")
        if u["scheme"] == "http":
            res.probes["proxy_forward"] += 1
            req = first
            s, a, p, q, f = R.split(req.target)
            if s is None or a is None:
                res.bad("wrong_target", f"forwarding proxy got a non-absolute target {req.target!r}")
                return
            if "@" in a:
                res.bad("userinfo_in_target", f"absolute-form target {req.target!r} carries the URL's userinfo")
            if f is not None:
                res.bad("fragment_in_target", f"absolute-form target {req.target!r} carries the fragment")
            got = read_url(req.target)
            if (got["scheme"], got["host"].rstrip("."), got["port"]) != (u["scheme"], u["host"].rstrip("."), u["port"]):
                res.bad("wrong_target", f"absolute-form target {req.target!r} names another origin than {sc['url']!r}")
            t = (p or "/") + ("?" + q if q is not None else "")
            if t not in want_targets(u):
                res.bad("wrong_target", f"path/query {t!r}, reference {sorted(want_targets(u))!r}")
            check_host_field(req, u, res)
        else:
            res.probes["proxy_tunnel"] += 1
            con = first
            if con.method != "CONNECT":
                res.bad("https_not_tunnelled", f"first message at the proxy: {con.method} {con.target}")
                return
            if not connect_target_ok(con.target, u):
                res.bad("wrong_connect_target", f"CONNECT {con.target!r} for {sc['url']!r}")
            inner = [q_ for q_ in reqs if q_.method != "CONNECT"]
            if inner:
                if inner[0].target not in want_targets(u):
                    res.bad("wrong_target", f"target in tunnel {inner[0].target!r}, reference {sorted(want_targets(u))!r}")
                check_host_field(inner[0], u, res)
            wraps = [t for t in w.tls_log if t[0] == "client_wrap"]
            check_sni(wraps[-1][2] if wraps else None, u, res)


def dial_names(w) -> dict:
    """socket id -> (name the resolver was asked for, port dialled)"""
    out, last = {}, None
    for e in w.events:
        if e[1] == "dns":
            last = e[3][0]
        elif e[1] == "dial":
            out[e[2]] = (last, e[3][1])
    return out


def check_second(url, w, res):
    """The second request of a look-alike pair: everything is judged against *its* URL, on the socket that carried it."""
    u = read_url(url)
    reqs = [q for q in w.requests if q.method != "CONNECT"]
    if len(reqs) < 2:
        res.bad("nothing_sent", "second request() returned but no second request reached any peer")
        return
    req = reqs[1]
    name, port = dial_names(w).get(req.sid, (None, None))
    want_dns = u["host"] + ("%" + u["zone"] if u["zone"] else "")
    if name is None or name.lower() != want_dns.lower():
        res.bad("wrong_host_dialled", f"second URL {url!r}: its request travelled on a connection opened to {name!r}, the URL's host is {want_dns!r}")
    elif port != u["port"]:
        res.bad("wrong_port_dialled", f"second URL {url!r}: connected to port {port}, URL says {u['port']}")
    else:
        res.probes["sibling_dialled_under_own_name"] += 1
    if req.target not in want_targets(u):
        res.bad("wrong_target", f"target {req.target!r}, reference {sorted(want_targets(u))!r}")
    check_host_field(req, u, res)
    if u["scheme"] == "https":
        wraps = [t for t in w.tls_log if t[0] == "client_wrap" and t[1] == req.sid]
        check_sni(wraps[0][2] if wraps else None, u, res)


def connect_target_ok(target: str, u: dict) -> bool:
    """CONNECT host:port names the URL's host (IPv6 bracketed; a zone id or a trailing dot may be kept) and port."""
    hp = u["host"].rstrip(".")
    want_conn = ("[" + hp + ("%" + u["zone"] if u["zone"] else "") + "]" if u["v6"] else hp) + f":{u['port']}"
    alt = ("[" + hp + "]" if u["v6"] else hp) + f":{u['port']}"
    t = target.lower()
    return t in (want_conn.lower(), alt.lower()) or t.rstrip(".") == want_conn.lower() or t.replace(".:", ":") == want_conn.lower()


def check_second_life_proxy(url, w, res, ok2):
    """Same URL twice through the proxy, the first answer closing the connection."""
    u = read_url(url)
    if u["scheme"] == "https":
        # every connection this manager opens for an https URL starts with CONNECT -- whatever became of the request
        for s_ in w.sockets:
            if s_.sent and not bytes(s_.sent).startswith(b"CONNECT "):
                res.bad("https_not_tunnelled", f"a connection to the proxy for {url!r} began with {bytes(s_.sent[:24])!r} instead of CONNECT")
                return
        inner = [q for q in w.requests if q.method != "CONNECT"]
        if ok2 and len(inner) >= 2:
            q2 = inner[1]
            cons = [q for q in w.requests if q.method == "CONNECT" and q.sid == q2.sid]
            if not cons:
                res.bad("https_not_tunnelled", f"second request for {url!r} travelled on a connection without CONNECT")
            elif not connect_target_ok(cons[0].target, u):
                res.bad("wrong_connect_target", f"second life: CONNECT {cons[0].target!r} for {url!r}")
            wraps = [t for t in w.tls_log if t[0] == "client_wrap" and t[1] == q2.sid]
            check_sni(wraps[-1][2] if wraps else None, u, res)
            if inner[1].target not in want_targets(u):
                res.bad("wrong_target", f"second life: target in tunnel {inner[1].target!r}")
            res.probes["second_life_checked"] += 1
    else:
        reqs = [q for q in w.requests]
        if ok2 and len(reqs) >= 2:
            got = read_url(reqs[1].target) if "://" in reqs[1].target else None
            if got is None or (got["scheme"], got["host"].rstrip("."), got["port"]) != (u["scheme"], u["host"].rstrip("."), u["port"]):
                res.bad("wrong_target", f"second life: forwarding proxy got {reqs[1].target!r} for {url!r}")
            check_host_field(reqs[1], u, res)
            res.probes["second_life_checked"] += 1


def check_host_field(req, u, res):
    hv = req.header_all("Host")
    ok = {want_host_field(u, False).lower(), want_host_field(u, True).lower()}
    if u["host"].endswith(".") and not u["v6"]:
        # "h.test." names the same host; only the TLS server name must lose the dot
        ok |= {x.replace(u["host"].rstrip(".").lower(), u["host"].lower(), 1) for x in list(ok)}
    if len(hv) != 1 or hv[0].lower() not in ok:
        res.bad("wrong_host_field", f"Host {hv!r}, URL says {sorted(ok)!r}")


def check_sni(name, u, res):
    want = u["host"].rstrip(".")
    if name is None or name.lower() != want.lower():
        res.bad("wrong_tls_server_name", f"TLS server name {name!r}, URL says {want!r} (no brackets, zone or trailing dot)")


def shrinks(sc):
    if sc.get("proxy_then"):
        c = copy.deepcopy(sc)
        del c["proxy_then"]
        c.pop("proxy_headers", None)
        yield c
    if sc.get("prelude_refused"):
        c = copy.deepcopy(sc)
        del c["prelude_refused"]
        yield c
    if sc.get("variant"):
        c = copy.deepcopy(sc)
        del c["variant"]
        yield c
    if sc.get("via_redirect_from"):
        c = copy.deepcopy(sc)
        del c["via_redirect_from"]
        yield c
    if sc.get("connect_fault") == "rst":
        c = copy.deepcopy(sc)
        c["connect_fault"] = "eof"
        yield c
    if sc.get("first_closes") and not sc.get("repeat"):
        c = copy.deepcopy(sc)
        del c["first_closes"]
        yield c
    if sc.get("repeat"):
        c = copy.deepcopy(sc)
        del c["repeat"]
        c.pop("first_closes", None)
        yield c
    if sc["via"] != "direct":
        c = copy.deepcopy(sc)
        c["via"] = "direct"
        yield c
    url = sc["url"]
    for pat, rep in ((r"#.*$", ""), (r"\?[^#]*", ""), (r"//[^/@]*@", "//"), (r":0*\d+(?=/|\?|#|$)", "")):
        u2 = re.sub(pat, rep, url, count=1)
        if u2 != url:
            c = copy.deepcopy(sc)
            c["url"] = u2
            c.pop("variant", None)
            yield c


def _trig_v6_tunnel(sc, res):
    u = read_url(sc["url"])
    return sc["via"] == "proxy" and u["scheme"] == "https" and u["v6"]


def _neut_v6_tunnel(sc):
    sc["via"] = "direct"
    return sc


def _trig_proxy_redirect_host(sc, res):
    # (the redirecting first hop is a forwarded plain-http request; whatever follows -- forwarded or tunnelled -- inherits its Host)
    return sc["via"] == "proxy" and bool(sc.get("via_redirect_from"))


def _neut_proxy_redirect_host(sc):
    sc.pop("via_redirect_from", None)
    return sc


KNOWN = {
    "KF-C15-tunnel-ipv6-host-double-brackets": (_trig_v6_tunnel, _neut_v6_tunnel),
    "KF-C15-forwarding-proxy-redirect-keeps-first-host": (_trig_proxy_redirect_host, _neut_proxy_redirect_host),
}
