"""C13 -- a cut-off or corrupt response is never presented as complete.
Engine: simnet.  Level: fault_enumeration -- for each sampled (response,
segmentation, read program) EVERY truncation point from the first body byte to
the last framing byte is replayed (EOF and reset), plus corruptions."""
from __future__ import annotations

import copy
import zlib

import zstandard

from props import _bodies as B
from props import c12
from simkit import harness as H
from simkit import world as W
from simkit.runner import Result, rng_for

ID = "C13"
ENGINE = "simnet"
LEVEL = "fault_enumeration"
TECHNIQUE = "deterministic network simulation: every truncation point (EOF/reset) and sampled corruptions of sampled responses x read programs, then a second request; independent framing classification"
LEVEL_TEXT = (
    "For each sampled (response, segmentation, read program) of C12's generator every cut position from the first body byte to the last framing byte is run with EOF and with reset, "
    "plus non-hex corruption of every chunk-size line, byte flips in the coded stream (verdict only where a reference decoder also fails) and truncated coded streams inside intact "
    "framing; an independent scanner says whether the prefix is incomplete; then a second request checks that the carrier socket is closed and never reused."
)
LEVEL_NOTE = "trusted: the framing classification in this module; 'either' zones: chunked body cut at/after the '0' of the last-chunk line, zero bytes of a coded close-delimited body, truncated gzip/deflate streams (decodable prefixes), corruptions a reference decoder accepts"
N = {"quick": 700, "thorough": 12000}
BUDGET = {"quick": 50, "thorough": 420}
RULE = (
    "index k -> base (response <= 3000 wire bytes, segmentation, program, finisher) then one run per (cut offset in [head_len, len(wire)), end in {eof, rst}) (all offsets up to 160, "
    "sampled beyond), per chunk-size line corruption, per sampled coded-stream byte flip and per coded-stream truncation. Non-trivial = the fault made the response incomplete/undecodable; "
    "distinct = distinct (response, segmentation, program, finisher, fault)."
)
ASSUMPTIONS = ["enforce_content_length is left at its default", "truncated gzip/deflate streams are decodable prefixes: the statement demands an error only for zstd (incomplete) and undecodable streams"]
REQUIRED_PROBES = {
    "quick": ["must_raise:cl", "must_raise:chunked", "must_raise:zstd_incomplete", "must_raise:corrupt_size_line", "must_raise:undecodable", "either_zone", "carrier_closed", "second_on_other_socket", "fin:data", "fin:read1_none_loop", "fin:stream", "late_tail_after_corruption"],
    "thorough": ["must_raise:cl", "must_raise:chunked", "must_raise:zstd_incomplete", "must_raise:corrupt_size_line", "must_raise:undecodable", "either_zone", "carrier_closed", "second_on_other_socket", "fin:data", "fin:read1_none_loop", "fin:stream", "late_tail_after_corruption"],
}


def gen_base(rng):
    for _ in range(50):
        sc = c12.gen(rng)
        sc["response"]["payload"]["size"] = min(sc["response"]["payload"]["size"], rng.choice([0, 1, 5, 40, 300, 1500]))
        r = sc["response"]
        if r["framing"] == "chunked" and r.get("chunks"):
            r["chunks"] = [min(c, 400) for c in r["chunks"]]
            if rng.random() < 0.3:
                r["chunk_pad"] = rng.choice([2, 4])  # "001b": leading zeros are legal
        built = B.build(r)
        if len(built["wire"]) <= 3000:
            sc["seg"] = c12.gen_seg(rng, built)
            sc["property"] = ID
            return sc, built
    raise RuntimeError("no small response")


def cases(seed, k, tier):
    rng = rng_for(seed, ID, k)
    base, built = gen_base(rng)
    wire = built["wire"]
    hl = built["head_len"]
    offs = list(range(hl, len(wire)))
    cap = 160 if tier == "quick" else 400
    if len(offs) > cap:
        keep = set(rng.sample(offs, cap - 20)) | set(b for b in built["boundaries"] if hl <= b < len(wire)) | set(b - 1 for b in built["boundaries"] if hl < b <= len(wire)) | set(offs[-12:])
        offs = sorted(keep)
    for c in offs:
        for end in ("eof", "rst") if rng.random() < 0.35 else (rng.choice(["eof", "rst"]),):
            sc = copy.deepcopy(base)
            sc["fault"] = {"kind": "cut", "at": c, "end": end}
            yield sc
    if base["response"]["framing"] == "cl":
        for inj in (False, True):
            sc = copy.deepcopy(base)
            sc["fault"] = {"kind": "huge_cl"}
            if inj:
                sc["pyopenssl"] = True
            yield sc
    for a, b in built["size_lines"]:
        ndig = _size_digits(wire, a)
        sc = copy.deepcopy(base)
        sc["fault"] = {"kind": "corrupt", "at": a + rng.randrange(ndig), "byte": rng.choice([ord("Z"), ord("g"), 0x00, ord("Z"), ord("-"), ord("+"), ord("_"), ord(" ")]), "where": "size_line"}
        yield sc
        if wire[a + ndig : a + ndig + 2] == b"\r\n":
            # the CR that ends a size line without extension turns into a letter: "1bZ<LF>" is no chunk-size line
            sc = copy.deepcopy(base)
            sc["fault"] = {"kind": "corrupt", "at": a + ndig, "byte": rng.choice([ord("Z"), ord("g"), 0xFF]), "where": "size_line_end"}
            yield sc
    if built["coded"]:
        body_lo = hl
        for _ in range(6):
            sc = copy.deepcopy(base)
            sc["fault"] = {"kind": "corrupt", "at": rng.randrange(body_lo, len(wire)), "xor": rng.choice([1, 0x80, 0xFF]), "where": "coded"}
            yield sc
            if sc["fault"]["at"] + 2 < len(wire):
                # the same corruption, but the rest of the response is still on its way when the damaged part is decoded: a
                # reader that gives up early must not leave that tail to whoever uses the connection next
                sc2 = copy.deepcopy(sc)
                sc2["fault"]["tail_after"] = rng.randrange(sc["fault"]["at"] + 1, len(wire))
                sc2["fault"]["tail_delay"] = rng.choice([0.5, 3.0])
                yield sc2
        full = built["full_coded_len"]
        for keep in sorted(set([0, 1, full // 2, max(full - 1, 0), max(full - 4, 0)])):
            if keep < full:
                sc = copy.deepcopy(base)
                sc["fault"] = {"kind": "coded_trunc", "keep": keep}
                yield sc
                if base["decode"] and base["finisher"] != "data":
                    # the same truncated stream read in small pieces by a caller that asks for decoding per call on a response
                    # created with decode_content=False (every piece size divides what has been decoded so far when it is 1)
                    sc3 = copy.deepcopy(sc)
                    sc3["decode_request"] = False
                    sc3["program"] = [o for o in sc3["program"] if o[0] != "readinto"]
                    sc3["finisher"] = rng.choice(["read_n_loop", "stream", "read_n_loop"])
                    sc3["amt"] = rng.choice([1, 1, 2, 7])
                    yield sc3


def _size_digits(wire: bytes, a: int) -> int:
    n = 0
    while a + n < len(wire) and wire[a + n : a + n + 1] in b"0123456789abcdefABCDEF" and wire[a + n : a + n + 1] != b"":
        n += 1
    return max(n, 1)


LENIENT = (ord("-"), ord("+"), ord("_"), ord(" "))


# ----------------------------------------------------------------------------- classification (independent of urllib3)


def ref_decodable(stack, coded: bytes):
    """(ok, complete): a stream counts as undecodable only if the reference decoders
    reject it both when fed at once and when fed byte by byte."""
    a = _ref_decodable(stack, coded, None)
    if a[0]:
        return a
    b = _ref_decodable(stack, coded, 1)
    return b if b[0] else a


def _feed(d, data, step):
    """-> (output, unconsumed rest)"""
    if step is None:
        out = d.decompress(data)
        return out, (d.unused_data if d.eof else b"")
    out = bytearray()
    i = 0
    while i < len(data):
        out += d.decompress(data[i : i + step])
        i += step
        if d.eof:
            return bytes(out), d.unused_data + data[i:]
    return bytes(out), b""


def _ref_decodable(stack, coded: bytes, step):
    data = coded
    try:
        for c in reversed(stack):
            if c in ("gzip", "x-gzip", "gzip_multi"):
                out = bytearray()
                rest = data
                first = True
                while rest:
                    d = zlib.decompressobj(31)
                    try:
                        o, rest = _feed(d, rest, step)
                        out += o
                    except zlib.error:
                        if first:
                            raise
                        break  # trailing garbage after a complete member is tolerated by gzip readers
                    if not d.eof:
                        return True, False
                    first = False
                data = bytes(out)
            elif c in ("deflate", "deflate_raw"):
                try:
                    d = zlib.decompressobj()
                    data2 = d.decompress(data)
                except zlib.error:
                    d = zlib.decompressobj(-15)
                    data2 = d.decompress(data)
                if not d.eof:
                    return True, False
                data = data2
            elif c in ("zstd", "zstd_multi"):
                out = bytearray()
                rest = data
                if not rest:
                    return True, False
                while rest:
                    d = zstandard.ZstdDecompressor().decompressobj()
                    o, rest = _feed(d, rest, step)
                    out += o
                    if not d.eof:
                        return True, False
                data = bytes(out)
        return True, True
    except (zlib.error, zstandard.ZstdError):
        return False, False


def classify(sc, built_full):
    """-> (verdict, label, wire bytes to serve, end)"""
    f = sc["fault"]
    r = sc["response"]
    wire = built_full["wire"]
    hl = built_full["head_len"]
    framing = r["framing"]
    stack = built_full["stack"]
    outer_zstd = stack[-1] in ("zstd", "zstd_multi")
    if f["kind"] == "cut":
        c = f["at"]
        data = wire[:c]
        end = f["end"]
        got_body = c - hl
        if framing == "cl":
            return "must_raise", "cl", data, end
        if framing == "chunked":
            if c <= built_full["last_chunk_line"]:
                for a, b_ in built_full["size_lines"]:
                    if a < c <= a + _size_digits(wire, a) and set(wire[a:c]) == {ord("0")}:
                        # the digits that arrived of this (zero-padded) size line read as a zero-size chunk without its CRLF:
                        # the same bytes as zone (i), a last-chunk line cut before its line end
                        return "either", "zero_prefix_of_size_line", data, end
                return "must_raise", "chunked", data, end
            return "either", "last_chunk_zone", data, end
        # close-delimited
        if end == "rst":
            return "must_raise", "close_rst", data, end
        if built_full["coded"] and outer_zstd and sc["decode"]:
            if got_body == 0:
                return "either", "zero_bytes_coded", data, end
            ok, complete = ref_decodable(stack, wire[hl:c])
            if ok and complete:
                return "either", "cut_at_frame_boundary", data, end  # what arrived is a complete zstd stream
            return "must_raise", "zstd_incomplete", data, end
        return "either", "close_eof", data, end
    if f["kind"] == "corrupt":
        b = bytearray(wire)
        if "byte" in f:
            if b[f["at"]] == f["byte"]:
                return "either", "no_change", bytes(b), None
            b[f["at"]] = f["byte"]
        else:
            b[f["at"]] ^= f["xor"]
        end = "eof" if framing == "close" else "keep_then_eof"
        if f["where"] == "size_line_end":
            return "must_raise", "corrupt_size_line", bytes(b), end
        if f["where"] == "size_line":
            hit = [a for a, b_ in built_full["size_lines"] if a <= f["at"] < a + _size_digits(wire, a)]
            if not hit or chr(b[f["at"]]) in "0123456789abcdefABCDEF":
                return "either", "corrupt_elsewhere", bytes(b), end
            a = hit[0]
            line = bytes(b[a : b.index(b"\r\n", a)]).split(b";")[0]
            try:
                int(line, 16)
                return "must_raise", "lenient_size_line", bytes(b), end  # malformed per RFC 9112, but Python's int() takes it
            except ValueError:
                return "must_raise", "corrupt_size_line", bytes(b), end
        if not sc["decode"]:
            return "either", "corrupt_not_decoded", bytes(b), end
        # where did the flip land?  only a flip inside the coded body with intact framing gets a verdict
        if framing == "chunked":
            inside = any(True for _ in [0])  # the framing bytes may have been hit: compare with the transfer-decoded body below
            coded = _dechunk_strict(bytes(b[hl:]))
            if coded is None:
                return "either", "corrupt_hit_framing", bytes(b), end
        else:
            coded = bytes(b[hl:])
        ok, complete = ref_decodable(stack, coded)
        if not ok:
            return "must_raise", "undecodable", bytes(b), end
        return "either", "corrupt_but_decodable", bytes(b), end
    if f["kind"] == "huge_cl":
        # the announced length does not fit a 32-bit int; the body that arrives is the short one, then EOF
        import re

        head = re.sub(rb"(?i)(content-length: *)(\d+)", lambda m: m.group(1) + str(int(m.group(2)) + 2**31).encode(), wire[:hl], count=1)
        return "must_raise", "cl", head + wire[hl:], "eof"
    if f["kind"] == "coded_trunc":
        spec = dict(r)
        spec["coded_keep"] = f["keep"]
        b2 = B.build(spec)
        end = "eof" if framing == "close" else "keep"
        if outer_zstd and sc["decode"]:
            if f["keep"] == 0:
                return "either", "zero_bytes_coded", b2["wire"], end
            ok, complete = ref_decodable(stack, b2["raw"])
            if ok and not complete:
                return "must_raise", "zstd_incomplete", b2["wire"], end
            if not ok:
                return "must_raise", "undecodable", b2["wire"], end
        return "either", "truncated_coded_prefix", b2["wire"], end
    raise ValueError(f)


def _dechunk_strict(data: bytes):
    pos = 0
    out = bytearray()
    while True:
        i = data.find(b"\r\n", pos)
        if i < 0:
            return None
        whole = data[pos:i]
        if any(ch < 0x20 and ch != 0x09 or ch >= 0x7F for ch in whole):
            return None  # e.g. the CR of a size line was hit: the "line" now runs on into chunk data (readers that accept a bare LF see other chunks)
        line = whole.split(b";")[0]
        try:
            n = int(line, 16)
        except ValueError:
            return None
        if not line or any(ch not in b"0123456789abcdefABCDEF" for ch in line):
            return None
        pos = i + 2
        if n == 0:
            return bytes(out)
        if data[pos + n : pos + n + 2] != b"\r\n":
            return None
        out += data[pos : pos + n]
        pos += n + 2


def run(sc: dict) -> Result:
    if sc.get("pyopenssl"):
        # urllib3.contrib.pyopenssl injected for the duration of the run (the flag alone changes how large reads are carried out,
        # also on plain-http responses)
        from simkit import ossl

        with ossl.injected():
            res = _run(sc)
        res.probes["pyopenssl_injected"] += 1
        return res
    return _run(sc)


def _run(sc: dict) -> Result:
    from urllib3.exceptions import DecodeError, HTTPError, ProtocolError

    res = Result()
    built = B.build(sc["response"])
    verdict, label, data, end = classify(sc, built)
    w = W.World({"seg": sc["seg"]})
    w.default_listener = H.origin_factory()
    state = {"n": 0}

    def responder(world, peer, req):
        state["n"] += 1
        if state["n"] == 1:
            e = end
            if e == "keep_then_eof":
                e = "keep"
            spec = {"k": "raw", "bytes": data, "end": e if e else "keep"}
            if sc["fault"].get("tail_after") is not None and 0 < sc["fault"]["tail_after"] < len(data):
                spec["split"] = [sc["fault"]["tail_after"], sc["fault"]["tail_delay"]]
                res.probes["late_tail_after_corruption"] += 1
            return spec
        return {"k": "resp", "status": 200, "body": "second"}

    w.responder = responder
    with H.RunEnv(), H.quiet_warnings(), w:
        pieces, err, r, pool = c12.execute(sc, res, w, built)
        # C12's own classes are not this property's business
        res.violations = []
        res.probes["fin:" + sc["finisher"]] += 1
        got = b"".join(pieces)
        want = built["decoded"] if sc["decode"] else built["raw"]
        carrier = w.sockets[0] if w.sockets else None
        if isinstance(err, (W.SimHang, W.StepLimit)):
            if verdict == "must_raise":
                res.bad("hang_instead_of_error", str(err))
        elif verdict == "must_raise":
            res.probes["must_raise:" + label] += 1
            if err is None or res.info.get("finished_normally"):
                res.bad(f"accepted_as_complete:{label}", f"{sc['finisher']} after {sc['program']} ended normally with {len(got)} bytes although the response was {label} ({sc['fault']})")
            elif not isinstance(err, (ProtocolError, DecodeError)):
                if isinstance(err, HTTPError):
                    res.probes["other_urllib3_error:" + type(err).__name__] += 1
                else:
                    res.bad(f"wrong_error:{type(err).__name__}", repr(err)[:200])
            if sc["fault"]["kind"] == "cut" and got and not want.startswith(got):
                res.bad("garbage_before_error", f"{len(got)} bytes delivered before the error are not a prefix of the payload")
            # the carrier must be gone and never reused (where the FRAMING is broken; a decode error over intact,
            # fully consumed framing leaves the wire clean -- there only an unpolluted second response is demanded)
            framing_broken = label in ("cl", "chunked", "close_rst", "corrupt_size_line", "lenient_size_line") or (label == "zstd_incomplete" and sc["fault"]["kind"] == "cut")
            if err is not None or True:
                r = None
                H.collect()
                try:
                    r2 = pool.urlopen("GET", "/second", retries=False)
                    second_sid = w.requests[-1].sid if len(w.requests) >= 2 else None
                    if carrier is not None and second_sid == carrier.sid and framing_broken:
                        res.bad("carrier_reused", f"second request travelled on socket {carrier.sid} that carried the {label} response")
                    elif second_sid is not None:
                        res.probes["second_on_other_socket"] += 1
                    if r2.data != b"second":
                        res.bad("second_response_polluted", repr(r2.data[:40]))
                except (W.SimHang, W.StepLimit) as e:
                    res.bad("second_request_hang", str(e))
                except Exception as e:
                    H.strip_tb(e)
                    if carrier is not None and not carrier.really_closed:
                        res.bad("carrier_reused", f"second request failed on the dirty carrier: {type(e).__name__}: {e!s:.100}")
                    else:
                        res.probes["second_failed:" + type(e).__name__] += 1
                # whatever the label: a second request must never be written onto the carrier while bytes of the first response are
                # still outstanding on it (arrived or in flight)
                if carrier is not None and carrier.tags.get("wrote_with_inbound_outstanding") and any(q.sid == carrier.sid and q.target == "/second" for q in w.requests):
                    res.bad("carrier_reused", f"the second request was written onto socket {carrier.sid} while the rest of the {label} response was still outstanding on it")
                if carrier is not None and err is not None and framing_broken:
                    if not carrier.really_closed:
                        res.bad("carrier_left_open", f"socket {carrier.sid} still open after the error")
                    else:
                        res.probes["carrier_closed"] += 1
        else:
            res.probes["either_zone"] += 1
            res.probes["either:" + label] += 1
        try:
            pool.close()
        except Exception:
            pass
        r = pool = None
        res.faults["fault:" + sc["fault"]["kind"] + (":" + sc["fault"].get("end", "") if sc["fault"]["kind"] == "cut" else "")] += 1
        res.digest = w.digest()
        res.trace = hash((repr(sc["response"]), repr(sc["seg"]), sc["decode"], repr(sc["program"]), sc["finisher"], sc["amt"], repr(sc["fault"])))
        res.nontrivial = verdict == "must_raise"
        res.sim_s = w.now - W.VClock.START
        res.steps = w.io_step
    return res


def shrinks(sc):
    for c in c12.shrinks(sc):
        # keep the fault meaningful for the smaller response
        built = B.build(c["response"])
        f = c["fault"]
        if f["kind"] in ("cut", "corrupt"):
            if not (built["head_len"] <= f["at"] < len(built["wire"])):
                continue
        yield c


def _trig_lenient(sc, res):
    f = sc["fault"]
    return f["kind"] == "corrupt" and f.get("where") == "size_line" and f.get("byte") in LENIENT


def _neut_lenient(sc):
    sc["fault"]["byte"] = ord("Z")
    return sc


KNOWN = {"KF-C13-lenient-chunk-size": (_trig_lenient, _neut_lenient)}
