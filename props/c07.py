"""C07 -- an HTTPS request is sent only over a connection verified as configured.
Engine: simnet + in-memory TLS (real OpenSSL handshakes and verification; the
server-side observer records whether a single plaintext application byte arrived)."""
from __future__ import annotations

import copy
import hashlib
import ssl

from simkit import harness as H
from simkit import peers as P
from simkit import tls as T
from simkit import world as W
from simkit.runner import Result, rng_for, stable_hash

import os

# The machine's own trust store, as OpenSSL finds it, is modelled explicitly: it trusts the *other* throw-away CA (the one that signs
# the "untrusted issuer" certificates) and nothing else.  A connection that silently falls back from the configured CAs to the system
# store therefore accepts exactly the certificates the configuration must reject.
os.environ["SSL_CERT_FILE"] = T.CA_BAD
os.environ["SSL_CERT_DIR"] = "/nonexistent-verif-certdir"

ID = "C07"
ENGINE = "simnet"
LEVEL = "exploration"
TECHNIQUE = "deterministic network simulation with in-memory TLS: verification-setting lattice x adversarial server certificates x handshake faults; server-side plaintext observer vs a three-valued reference"
LEVEL_TEXT = (
    "Seeded cells of cert_reqs x assert_hostname x assert_fingerprint x server_hostname x ssl_context kind x CA source x issuer x SAN shape x requested host form x TLS backend (stdlib ssl, pyOpenSSL), directly and "
    "through http/https proxy tunnels (TLS-in-TLS), with real handshakes in memory and optional faults at handshake I/O steps; in every must-reject cell the origin-side observer "
    "must have seen zero plaintext bytes, the client must raise SSLError and the socket must be closed; unvalidated connections must warn and never report is_verified. The machine's own trust store is modelled as the *other* CA, and a fifth of the cells first make a plain-http request through the same manager. Race stratum (simsched): two threads open TLS connections sharing one caller-supplied SSLContext while one peer presents a certificate for another name -- every single pre-emption of sampled scenarios plus seeded schedules. Sampling."
)
LEVEL_NOTE = "trusted: the three-valued reference (must-reject / must-accept / either) in this module; stdlib backend: client TLS runs through urllib3's SSLTransport instead of ssl.SSLSocket; pyOpenSSL backend: urllib3.contrib.pyopenssl (PyOpenSSLContext, WrappedSocket, its own hostname matching) is real, OpenSSL.SSL.Connection runs in memory-BIO mode pumped over the SimSocket (simkit/ossl.py)"
N = {"quick": 14000, "thorough": 200000}
BUDGET = {"quick": 50, "thorough": 420}
RULE = "index k -> one lattice cell (+ path direct / http-proxy tunnel / https-proxy tunnel, + optional handshake step fault). Non-trivial = cell is must-reject or unvalidated; distinct = distinct cell tuple."
ASSUMPTIONS = [
    "caller-supplied contexts that contradict cert_reqs are 'either' for rejection (only 'nothing sent before an error' is demanded); CERT_OPTIONAL must reject a failing peer like REQUIRED (a TLS server always presents a certificate), acceptance of a good one is not demanded",
    "must-accept cells that fail are counted (vacuity guard), not reported as C07 violations",
    "pyOpenSSL backend: direct and http-proxy-tunnel paths only (that backend offers no TLS-in-TLS); ca_cert_data with pyOpenSSL 26.4 fails closed before the handshake and is only counted",
]
REQUIRED_PROBES = {
    "quick": ["must_reject_held", "accepted", "unverified_warned", "reject:chain", "reject:hostname", "reject:fingerprint", "path:tunnel", "path:tunnel_tlsproxy", "handshake_fault", "either_cell", "ip_host", "wildcard", "pyopenssl_handshake_in_memory", "prelude_http_pool_built", "race_runs", "race_preempted", "race_mismatch_rejected"],
    "thorough": ["must_reject_held", "accepted", "unverified_warned", "reject:chain", "reject:hostname", "reject:fingerprint", "path:tunnel", "path:tunnel_tlsproxy", "handshake_fault", "either_cell", "ip_host", "wildcard", "pyopenssl_handshake_in_memory", "prelude_http_pool_built", "race_runs", "race_preempted", "race_mismatch_rejected"],
}

# requested host -> (host string in the URL, names the certificate shape must cover)
HOSTS = {
    "lower": "origin.test",
    "upper": "ORIGIN.TEST",
    "dot": "origin.test.",
    "wild": "x.wild.test",
    "ip4": "10.0.0.5",
    "ip6": "[fd00::5]",
    "ip6zone": "[fe80::1%25eth0]",
}
# certificate shape -> SAN entries
SANS = {
    "origin": {"dns": ["origin.test"], "ip": []},
    "wild": {"dns": ["*.wild.test"], "ip": []},
    "other": {"dns": ["other.test"], "ip": []},
    "ip4": {"dns": [], "ip": ["10.0.0.5"]},
    "ip6": {"dns": [], "ip": ["fd00::5"]},
    "cnonly": {"dns": [], "ip": []},
    "ipdns4": {"dns": ["10.0.0.5"], "ip": []},  # the address as text in a dNSName entry: covers nothing
    "any": {"dns": ["origin.test", "a.test", "b.test", "c.test", "h.test", "proxy.test", "*.wild.test", "xn--bcher-kva.test", "example.test"], "ip": ["10.0.0.5", "10.0.0.6", "fd00::5", "fe80::1"]},
}


def name_matches(name: str, shape: str) -> bool:
    n = name.strip("[]")
    if "%" in n:
        n = n[: n.rfind("%")]
    n = n.rstrip(".").lower()
    s = SANS[shape]
    is_ip = ":" in n or all(p.isdigit() for p in n.split("."))
    if is_ip:
        return n in s["ip"]
    for d in s["dns"]:
        d = d.lower()
        if d == n:
            return True
        if d.startswith("*."):
            rest = d[2:]
            lab, _, tail = n.partition(".")
            if lab and tail == rest and "*" not in lab:
                return True
    return False


def fp(cert: str, algo: str) -> str:
    h = hashlib.new(algo, T.der(cert)).hexdigest()
    return h


def gen(rng):
    path = rng.choice(["direct"] * 6 + ["tunnel"] * 2 + ["tunnel_tlsproxy"])
    hostk = rng.choice(list(HOSTS))
    shape = rng.choice(["origin", "origin", "any", "wild", "other", "ip4", "ip6", "cnonly", "any", "ipdns4"])
    cell = {
        "path": path,
        "host": hostk,
        "shape": shape,
        "issuer": rng.choice(["trusted", "trusted", "untrusted"]),
        "cert_reqs": rng.choice(["unset", "unset", "CERT_REQUIRED", "CERT_OPTIONAL", "CERT_NONE"]),
        "assert_hostname": rng.choice(["unset", "unset", False, "right", "wrong"]),
        "assert_fingerprint": rng.choice(["unset", "unset", "unset", "sha256", "sha1", "md5", "wrong", "badlen", "sha256_colons"]),
        "server_hostname": rng.choice(["unset", "unset", "unset", "right", "wrong"]),
        "ssl_context": rng.choice(["none", "none", "none", "default", "nocheck", "verify_none"]),
        "ca": rng.choice(["ca_certs", "ca_certs", "ca_cert_data", "none"]),
    }
    if path == "tunnel_tlsproxy":
        cell["cert_reqs"] = rng.choice(["unset", "CERT_REQUIRED"])
        cell["ca"] = rng.choice(["ca_certs", "ca_cert_data"])
        cell["ssl_context"] = "none"
    sc = {"property": ID, "cell": cell}
    if rng.random() < 0.2:
        # a plain-http request through the same manager first (it makes the manager build an http pool from its keyword set):
        # whatever TLS settings the manager was given must still govern the https request that follows
        cell["prelude_http"] = True
    if path != "tunnel_tlsproxy" and rng.random() < 0.3:
        # pyOpenSSL backend (urllib3.contrib.pyopenssl injected) over the same simulated network, see simkit/ossl.py;
        # TLS-in-TLS is not offered by that backend (PyOpenSSLContext has no wrap_bio)
        cell["backend"] = "pyopenssl"
        if cell["ca"] == "ca_cert_data" and rng.random() < 0.8:
            cell["ca"] = "ca_certs"  # with pyOpenSSL 26 ca_cert_data fails closed ("unable to load trusted certificates"): keep a few, not a third
    if rng.random() < 0.12:
        sc["step_faults"] = [{"at": rng.randrange(0, 14), "kind": rng.choice(["eof", "reset", "timeout", "eio"])}]
    return sc


def warmup():
    """The race stratum pre-empts at every line of the TLS set-up code."""
    import urllib3.connection
    import urllib3.connectionpool
    import urllib3.util.ssl_
    import urllib3.util.ssltransport

    from simkit import sched as S

    w = W.World({})
    w.default_listener = H.tls_origin_factory()
    with w:
        p = H.u3().HTTPSConnectionPool("origin.test", 443, ca_certs=T.CA_GOOD, retries=False, timeout=3.0)
        p.request("GET", "/warm").data
        p.close()
    S.instrument([urllib3.connection, urllib3.util.ssl_, urllib3.util.ssltransport, urllib3.connectionpool])


RACE_MODES = ["assert_hostname", "mixed_pin", "plain"]


def gen_race(rng):
    """Two threads open TLS connections that share one caller-supplied SSLContext; one of the two peers presents a certificate
    (trusted issuer) for another name."""
    mode = rng.choice(RACE_MODES)
    certs = rng.choice([["other", "origin"], ["origin", "other"], ["other", "other"]])
    c = rng.random()
    if c < 0.5:
        sched = {"strategy": "uniform", "p": rng.choice([0.01, 0.03, 0.1]), "seed": rng.randrange(1 << 30)}
    else:
        sched = {"strategy": "pct", "d": rng.choice([1, 2, 3]), "steps": rng.choice([200, 500, 1200]), "seed": rng.randrange(1 << 30)}
    return {"property": ID, "kind": "race", "mode": mode, "certs": certs, "schedule": sched}


def cases(seed, k, tier):
    rng = rng_for(seed, ID, k)
    if k % 251 == 7:
        # systematic: every single pre-emption (sampled beyond a cap) of the sequential run of one race scenario
        base = gen_race(rng)
        base["schedule"] = {"decisions": []}
        yield base
        steps_total = _run(base).steps
        cap = 120 if tier == "quick" else 600
        steps = list(range(1, steps_total + 1))
        if len(steps) > cap:
            steps = sorted(rng.sample(steps, cap))
        for st in steps:
            sc = copy.deepcopy(base)
            sc["schedule"] = {"decisions": [[st, "T1"]]}
            yield sc
        return
    if k % 51 == 8:
        yield gen_race(rng)
        return
    yield gen(rng)


def reference(cell) -> tuple[str, list[str]]:
    """-> (verdict in must_reject|must_accept|either, reasons)"""
    host = HOSTS[cell["host"]]
    shape = cell["shape"]
    ctxk = cell["ssl_context"]
    reqs = cell["cert_reqs"]
    # effective verification mode as documented: explicit cert_reqs, else the supplied context's, else REQUIRED
    if reqs != "unset":
        eff = reqs
    elif ctxk == "verify_none":
        eff = "CERT_NONE"
    else:
        eff = "CERT_REQUIRED"
    contradict = (ctxk in ("default",) and eff in ("CERT_NONE", "CERT_OPTIONAL")) or (ctxk == "verify_none" and reqs in ("CERT_REQUIRED", "CERT_OPTIONAL")) or (ctxk == "nocheck" and eff == "CERT_NONE" and False)
    if cell["ca"] != "none":
        chain_ok = cell["issuer"] == "trusted"  # the configured CA file / data, and only it
    elif ctxk == "none" and cell.get("backend", "ssl") == "ssl":
        chain_ok = cell["issuer"] == "untrusted"  # no CA configured: the system store (see the top of this module) is loaded
        # (PyOpenSSLContext has no load_default_certs(): that backend then knows no issuer at all)
    else:
        chain_ok = False  # a caller's context without CA material knows no issuer
    reasons = []
    pin = cell["assert_fingerprint"]
    if pin in ("wrong", "badlen"):
        reasons.append("fingerprint")
    if eff in ("CERT_REQUIRED", "CERT_OPTIONAL") and not chain_ok:
        reasons.append("chain")
    name = host
    if cell["server_hostname"] == "right":
        name = host
    elif cell["server_hostname"] == "wrong":
        name = "other.test"
    if cell["assert_hostname"] == "right":
        name = host
    elif cell["assert_hostname"] == "wrong":
        name = "other.test"
    hostname_checked = pin == "unset" and cell["assert_hostname"] is not False and eff != "CERT_NONE"
    if hostname_checked and not name_matches(name, shape):
        reasons.append("hostname")
    if contradict:
        return "either", reasons
    if eff == "CERT_OPTIONAL":
        # on the client side OPTIONAL verifies whatever certificate the server presents (and a TLS server always presents one) exactly
        # like REQUIRED, and urllib3 matches the name itself: a failing peer must be rejected; acceptance of a good one is not demanded
        return ("must_reject", reasons) if reasons else ("either", reasons)
    if ctxk == "nocheck" and "hostname" in reasons and reasons == ["hostname"]:
        # a caller's context with check_hostname off: urllib3 still matches the name itself when verify_mode != NONE
        return "must_reject", reasons
    if reasons:
        return "must_reject", reasons
    if ctxk != "none" and shape == "cnonly":
        return "either", reasons
    return "must_accept", reasons


def build_kwargs(cell):
    kw = {}
    host = HOSTS[cell["host"]]
    if cell["cert_reqs"] != "unset":
        kw["cert_reqs"] = cell["cert_reqs"]
    if cell["assert_hostname"] is False:
        kw["assert_hostname"] = False
    elif cell["assert_hostname"] == "right":
        kw["assert_hostname"] = host.strip("[]").rstrip(".") if not host.startswith("[") else host.strip("[]").split("%")[0]
    elif cell["assert_hostname"] == "wrong":
        kw["assert_hostname"] = "other.test"
    served = ("bad_" if cell["issuer"] == "untrusted" else "") + cell["shape"]
    pin = cell["assert_fingerprint"]
    if pin in ("sha256", "sha1", "md5"):
        kw["assert_fingerprint"] = fp(served, pin)
    elif pin == "sha256_colons":
        h = fp(served, "sha256").upper()
        kw["assert_fingerprint"] = ":".join(h[i : i + 2] for i in range(0, len(h), 2))
    elif pin == "wrong":
        kw["assert_fingerprint"] = fp("other" if cell["shape"] != "other" else "origin", "sha256")
    elif pin == "badlen":
        kw["assert_fingerprint"] = fp(served, "sha256")[:-2]
    if cell["server_hostname"] == "right":
        kw["server_hostname"] = host.strip("[]").rstrip(".").split("%")[0]
    elif cell["server_hostname"] == "wrong":
        kw["server_hostname"] = "other.test"
    if cell["ca"] == "ca_certs":
        kw["ca_certs"] = T.CA_GOOD
    elif cell["ca"] == "ca_cert_data":
        kw["ca_cert_data"] = open(T.CA_GOOD).read()
    ck = cell["ssl_context"]
    if ck != "none":
        from urllib3.util.ssl_ import create_urllib3_context

        ctx = create_urllib3_context()
        if ck == "nocheck":
            ctx.check_hostname = False
        elif ck == "verify_none":
            ctx.check_hostname = False
            ctx.verify_mode = ssl.CERT_NONE
        kw["ssl_context"] = ctx
    return kw, served


class _backend:
    """stdlib ssl (default) or urllib3.contrib.pyopenssl injected for the duration of one run."""

    def __init__(self, which):
        self.which = which
        self.cm = None

    def __enter__(self):
        if self.which == "pyopenssl":
            from simkit import ossl

            self.cm = ossl.injected()
            self.cm.__enter__()

    def __exit__(self, *a):
        if self.cm is not None:
            self.cm.__exit__(*a)


def run(sc: dict) -> Result:
    if sc.get("kind") == "race":
        return _run(sc)
    with _backend(sc["cell"].get("backend", "ssl")):
        return _run(sc)


def run_race(sc: dict) -> Result:
    from urllib3.exceptions import SSLError
    from urllib3.util.ssl_ import create_urllib3_context

    from simkit import sched as S

    res = Result()
    urllib3 = H.u3()
    w = W.World({"certs": list(sc["certs"])})
    peers = []
    fac = H.tls_origin_factory()

    def listener(world, chan):
        tp = fac(world, chan)
        peers.append(tp)
        return tp

    w.default_listener = listener
    mode = sc["mode"]
    with H.RunEnv(), H.quiet_warnings(), w:
        sched = S.Scheduler(w, sc["schedule"])
        ctx = create_urllib3_context()
        ctx.load_verify_locations(T.CA_GOOD)  # check_hostname stays True: the caller's own context, shared by every connection
        common = dict(ssl_context=ctx, retries=False, timeout=5.0, maxsize=2)
        if mode == "assert_hostname":
            pa = pb = urllib3.HTTPSConnectionPool("origin.test", 443, assert_hostname="origin.test", **common)
        elif mode == "mixed_pin":
            pa = urllib3.HTTPSConnectionPool("origin.test", 443, **common)
            pb = urllib3.HTTPSConnectionPool("origin.test", 443, assert_fingerprint=fp("origin", "sha256"), **common)
        else:
            pa = pb = urllib3.HTTPSConnectionPool("origin.test", 443, **common)

        def make(pool, path):
            def body():
                try:
                    r = pool.request("GET", path)
                    return ("ok", r.status)
                except (S.SimDeadlock, S.TaskAbort, W.StepLimit, W.SimHang):
                    raise
                except Exception as e:
                    H.strip_tb(e)
                    return ("exc", e)

            return body

        sched.spawn("T0", make(pa, "/t0"))
        sched.spawn("T1", make(pb, "/t1"))
        sched.run()
        res.probes["race_runs"] += 1
        if sched.preemptions:
            res.probes["race_preempted"] += 1
        if sched.verdict == "deadlock":
            res.bad("deadlock", "TLS set-up of two threads blocked for ever")
        for t in sched.tasks:
            if t.error is not None and not isinstance(t.error, (S.SimDeadlock, S.TaskAbort)):
                res.bad(f"task_crashed:{type(t.error).__name__}", f"{t.name}: {t.error!r:.160}")
        for tp in peers:
            mismatching = tp.cert == "other"
            if mismatching and len(tp.plain_in) > 0:
                # a pin for the *other* certificate does not excuse it: in mixed_pin the pinned pool pins 'origin'
                res.bad("request_sent_unverified", f"{len(tp.plain_in)} plaintext bytes reached a peer whose certificate names other.test (shared SSLContext, mode {mode}, schedule {sc['schedule']})")
            elif mismatching:
                res.probes["race_mismatch_rejected"] += 1
            elif len(tp.plain_in) > 0:
                res.probes["race_good_peer_served"] += 1
        outs = [t.result for t in sched.tasks]
        for o in outs:
            if o and o[0] == "exc" and not isinstance(H.root_reason(o[1]), SSLError) and not H.is_urllib3_error(o[1]):
                res.bad(f"wrong_error:{type(o[1]).__name__}", repr(o[1])[:160])
        res.info["switch_log"] = list(sched.switch_log)
        res.faults["preemptions"] += sched.preemptions
        res.digest = hashlib.sha256(repr((sc["mode"], sc["certs"], [(o[0], type(o[1]).__name__ if o[0] == "exc" else o[1]) for o in outs if o], [len(tp.plain_in) > 0 for tp in peers], stable_hash(sched.trace))).encode()).hexdigest()[:16]
        res.trace = hash((mode, tuple(sc["certs"]), sched.signature()))
        res.nontrivial = sched.preemptions > 0
        res.sim_s = w.now - W.VClock.START
        res.steps = sched.steps
        for t in sched.tasks:
            t.result = t.error = t.fn = None
        pa.close()
        pb.close()
    return res


def _run(sc: dict) -> Result:
    if sc.get("kind") == "race":
        return run_race(sc)
    from urllib3.exceptions import InsecureRequestWarning, MaxRetryError, ProxyError, SSLError

    res = Result()
    urllib3 = H.u3()
    cell = sc["cell"]
    verdict, reasons = reference(cell)
    kw, served = build_kwargs(cell)
    host = HOSTS[cell["host"]]
    path = cell["path"]
    w = W.World({"step_faults": sc.get("step_faults") or []})
    origin_tls = []

    def origin_factory(world, chan, *a):
        tp = T.TlsPeer(world, chan, lambda w_, c: P.HttpPeer(w_, c, "origin", "origin", True), cert=served, name="origin")
        origin_tls.append(tp)
        return tp

    if path == "direct":
        w.default_listener = lambda world, chan: (P.HttpPeer(world, chan, "plain", "origin") if chan.peer_addr[1] == 80 else origin_factory(world, chan))
    elif path == "tunnel":
        w.default_listener = H.origin_factory("proxy", "proxy")
        w.tunnel_factory = lambda w_, chan, target: origin_factory(w_, chan)
    else:
        w.default_listener = lambda w_, chan: T.TlsPeer(w_, chan, lambda w2, c: P.HttpPeer(w2, c, "proxy", "proxy", True), cert="proxy", name="proxy")
        w.tunnel_factory = lambda w_, chan, target: origin_factory(w_, chan)
    res.probes["path:" + path] += 1
    url = f"https://{host}/secret"
    backend = cell.get("backend", "ssl")
    res.probes["backend:" + backend] += 1
    with H.RunEnv(), H.quiet_warnings() as qw, w:
        err = None
        r = None
        verified = None
        try:
            if path == "direct":
                m = urllib3.PoolManager(retries=False, timeout=3.0, **kw)
            elif path == "tunnel":
                m = urllib3.ProxyManager("http://proxy.test:3128", retries=False, timeout=3.0, **kw)
            else:
                m = urllib3.ProxyManager("https://proxy.test:8443", retries=False, timeout=3.0, **kw)
            if cell.get("prelude_http"):
                try:
                    m.request("GET", "http://plain.test/pre").data
                    res.probes["prelude_http_pool_built"] += 1
                except (W.SimHang, W.StepLimit):
                    raise
                except Exception as e:
                    # the prelude may fail for reasons of its own (assert_hostname / assert_fingerprint are handed to plain-http
                    # connections too, which refuse them; through an https proxy the destination's pin is applied to the proxy):
                    # nothing to do with the https request this check is about
                    H.strip_tb(e)
                    res.probes["prelude_http_failed:" + type(e).__name__] += 1
            r = m.request("GET", url, preload_content=False, headers={"X-Secret": "s3cr3t"})
            verified = getattr(r.connection, "is_verified", None)
            r.read()
        except (W.SimHang, W.StepLimit) as e:
            err = e
        except Exception as e:
            H.strip_tb(e)
            err = e
        plain = sum(len(tp.plain_in) for tp in origin_tls)
        fault_fired = bool(w.faults_fired)
        if fault_fired:
            res.probes["handshake_fault"] += 1
        if backend == "pyopenssl":
            if any(t[0] == "client_wrap_pyopenssl" for t in w.tls_log):
                res.probes["pyopenssl_handshake_in_memory"] += 1
            if any(t[0] == "client_wrap" for t in w.tls_log):
                raise W.SeamError("stdlib ssl wrap happened although the pyOpenSSL backend is injected")
        warned = bool(qw.of(InsecureRequestWarning))
        if cell["host"] in ("ip4", "ip6", "ip6zone"):
            res.probes["ip_host"] += 1
        if cell["shape"] == "wild" or cell["host"] == "wild":
            res.probes["wildcard"] += 1
        if verdict == "must_reject":
            for rs in reasons:
                res.probes["reject:" + rs] += 1
            if plain > 0:
                res.bad("request_sent_unverified", f"{plain} plaintext bytes reached the origin although the peer fails {reasons} (cell {cell})")
            elif err is None:
                res.bad("accepted_unverified", f"request completed although the peer fails {reasons} (cell {cell})")
            else:
                root = H.root_reason(err)
                ok_types = (SSLError,)
                if isinstance(err, (W.SimHang, W.StepLimit)):
                    res.bad("hang", str(err))
                elif not (isinstance(root, ok_types) or isinstance(err, ok_types)):
                    if fault_fired and H.is_urllib3_error(err):
                        res.probes["fault_error:" + type(root).__name__] += 1
                    elif isinstance(root, ValueError) and not H.is_urllib3_error(err):
                        res.bad(f"wrong_error:{type(root).__name__}", f"{root!r:.160} for a peer failing {reasons}")
                    else:
                        res.bad(f"wrong_error:{type(root).__name__}", f"{root!r:.160} for a peer failing {reasons}")
                elif isinstance(err, ProxyError) or (isinstance(err, MaxRetryError) and isinstance(err.reason, ProxyError)):
                    # the proxy did its part (every proxy in this check is healthy and trusted, the tunnel was established):
                    # it is the destination that failed verification, and that is an SSLError, not "unable to connect to proxy"
                    if fault_fired:
                        res.probes["fault_error:ProxyError"] += 1
                    else:
                        res.bad("wrong_error:ProxyError", f"{err!r:.200} for a destination failing {reasons} behind a healthy proxy")
                else:
                    res.probes["must_reject_held"] += 1
                open_left = [s for s in w.sockets if not s.really_closed]
                if open_left:
                    H.collect()
                    open_left = [s for s in w.sockets if not s.really_closed]
                if open_left and err is not None:
                    r = None
                    m.clear()
                    H.collect()
                    # a pooled manager may legitimately keep nothing: the failed connection must not stay open
                    still = [s for s in w.sockets if not s.really_closed]
                    if still:
                        res.bad("socket_left_open", f"{len(still)} sockets open after the verification failure")
        elif verdict == "must_accept":
            if err is None and plain > 0:
                res.probes["accepted"] += 1
            elif not fault_fired:
                res.probes["must_accept_failed"] += 1
                res.info["must_accept_failed"] = f"{type(err).__name__ if err else None}: {err!s:.120} cell {cell}"
        else:
            res.probes["either_cell"] += 1
            if err is not None and plain > 0 and not isinstance(err, (W.SimHang, W.StepLimit)) and isinstance(H.root_reason(err), (SSLError,)) and not fault_fired:
                res.bad("bytes_before_ssl_error", f"{plain} plaintext bytes reached the origin and then {H.root_reason(err)!r:.100}")
        # unvalidated connections warn and are never reported as verified
        reqs = cell["cert_reqs"]
        eff_required = (reqs == "CERT_REQUIRED") or (reqs == "unset" and cell["ssl_context"] != "verify_none")
        pinned = cell["assert_fingerprint"] not in ("unset",)
        if err is None and plain > 0 and not eff_required and not pinned:
            if not warned:
                res.bad("no_insecure_warning", f"request proceeded without certificate validation and without InsecureRequestWarning (cell {cell})")
            elif verified:
                res.bad("reported_verified", f"is_verified is True on an unvalidated connection (cell {cell})")
            else:
                res.probes["unverified_warned"] += 1
        try:
            r = None
            m.clear()
        except Exception:
            pass
        res.faults.update(w.faults_fired)
        res.digest = hashlib.sha256(repr((cell, sc.get("step_faults"), type(err).__name__ if err else None, plain > 0, [t[0] for t in w.tls_log])).encode()).hexdigest()[:16]
        res.trace = hash((repr(cell), repr(sc.get("step_faults"))))
        res.nontrivial = verdict != "must_accept" or not eff_required
        res.sim_s = w.now - W.VClock.START
        res.steps = w.io_step
    return res


def shrinks(sc):
    if sc.get("kind") == "race":
        sch = sc["schedule"]
        if "decisions" not in sch:
            r = run(sc)
            c = copy.deepcopy(sc)
            c["schedule"] = {"decisions": [list(x) for x in r.info.get("switch_log", [])]}
            yield c
        else:
            dec = sch["decisions"]
            for i in range(len(dec)):
                c = copy.deepcopy(sc)
                c["schedule"] = {"decisions": dec[:i] + dec[i + 1 :]}
                yield c
        return
    if sc.get("step_faults"):
        c = copy.deepcopy(sc)
        c["step_faults"] = []
        yield c
    simple = {"prelude_http": False, "backend": "ssl", "path": "direct", "host": "lower", "shape": "origin", "issuer": "trusted", "cert_reqs": "unset", "assert_hostname": "unset", "assert_fingerprint": "unset", "server_hostname": "unset", "ssl_context": "none", "ca": "ca_certs"}
    for k, v in simple.items():
        if sc["cell"].get(k, v) != v:
            c = copy.deepcopy(sc)
            c["cell"][k] = v
            yield c


KNOWN = {}
