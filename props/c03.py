"""C03 -- a response only ever contains bytes sent in reply to its own request.
Engine: simnet."""
from __future__ import annotations

import copy
import re

from simkit import harness as H
from simkit import world as W
from simkit.runner import Result, rng_for

ID = "C03"
ENGINE = "simnet"
LEVEL = "exploration"
TECHNIQUE = "deterministic network simulation of keep-alive histories with hostile server framing; and caller-side interrupts injected at I/O steps; request-id tagged bodies + dirty-socket and abandoned-exchange monitors"
LEVEL_TEXT = (
    "Seeded histories of 2-4 requests on one pool against a scripted origin (framings, keep-alive/close, stray and forged bytes after body-less responses, "
    "interim 1xx, delayed tails -- including a late tail that is itself a well-formed HTTP response --, early EOF, and -- in 15 % of the histories -- an interrupt raised in the caller at one I/O step) with every caller disposal; each delivered byte string is checked against what the origin generated for that very request. Sampling."
)
LEVEL_NOTE = "trusted: SimSocket/poll semantics (readability at checkout), the scripted origin; plain HTTP and (15 %) direct TLS with the stand-in for ssl.SSLSocket offering pending(); histories <= 4 requests"
N = {"quick": 40000, "thorough": 600000}
BUDGET = {"quick": 45, "thorough": 420}
RULE = (
    "index k -> seeded history (2-4 requests, methods GET/HEAD/POST, maxsize 1-2, per-response server behaviour and caller disposal). Non-trivial = a fault/stray/"
    "early close fired or a connection was reused; distinct = distinct abstract trace (event kinds + socket ids)."
)
ASSUMPTIONS = [
    "stray bytes are generated only after self-delimiting responses (Content-Length, chunked, body-less status): after close-delimited or truncated responses extra bytes are body",
    "the origin answers only complete requests and never pipelines",
]
REQUIRED_PROBES = {"quick": ["resp:stray", "reused_connection", "dirty_checkout_discarded", "forged_offered", "embedded_tail_in_flight_after_early_release", "tls_connection_reused", "interrupted@request", "interrupted@read", "interrupt_on_a_connection"], "thorough": ["resp:stray", "reused_connection", "dirty_checkout_discarded", "forged_offered", "embedded_tail_in_flight_after_early_release", "tls_connection_reused", "interrupted@request", "interrupted@read", "interrupt_on_a_connection"]}

FORGED = "HTTP/1.1 200 OK\r\nX-Forged: 1\r\nContent-Length: 9\r\n\r\n[FORGED!]"
HOWS = ["read_all", "read_k_release", "release_unread", "drain", "close_release", "close_only", "stream_all", "stream_part_release", "drop", "data", "read1_k_release", "read1_rest_release", "readinto_k_release"]


def gen(rng) -> dict:
    maxsize = rng.choice([1, 1, 2])
    cfg = {"path": "direct_tls" if rng.random() < 0.15 else "direct", "maxsize": maxsize, "block": False, "retries": rng.choice([0, 1, 2, 3, False]), "preload": rng.random() < 0.3, "timeout": 5.0}
    nreq = rng.choice([2, 2, 3, 4])
    ops, exchanges = [], []
    live = []
    for i in range(nreq):
        while live and rng.random() < 0.7:
            j = live.pop(rng.randrange(len(live)))
            ops.append({"op": "dispose", "of": j, "how": rng.choice(HOWS), "k": rng.choice([1, 3, 10])})
        m = rng.choice(["GET", "GET", "HEAD", "POST"])
        op = {"op": "request", "id": f"r{i}", "method": m, "path": f"/r{i}"}
        if m == "POST":
            op["body"] = {"kind": "bytes", "size": rng.choice([0, 5, 300])}
        ops.append(op)
        live.append(op["id"])
        if rng.random() < 0.25:
            ops.append({"op": "advance", "d": rng.choice([0.5, 2.0, 10.0])})
    while live:
        j = live.pop(rng.randrange(len(live)))
        ops.append({"op": "dispose", "of": j, "how": rng.choice(HOWS), "k": rng.choice([1, 3, 10])})
    for o in ops:
        if o["op"] == "dispose" and o["how"] == "read_k_release" and rng.random() < 0.3:
            o["but1"] = True
    for i in range(nreq + rng.choice([0, 1, 3])):
        exchanges.append(gen_exchange(rng))
    if cfg["path"] == "direct_tls":
        sc = {"property": ID, "config": cfg, "ops": ops, "exchanges": exchanges, "seg": {"mode": "whole"}}
    else:
        sc = {"property": ID, "config": cfg, "ops": ops, "exchanges": exchanges, "seg": rng.choice([{"mode": "whole"}, {"mode": "whole"}, {"mode": "fixed", "n": rng.choice([1, 5, 64])}, {"mode": "rand", "seed": rng.randrange(1000), "max": 40}])}
    if rng.random() < 0.15:
        # the caller is interrupted (KeyboardInterrupt, a green-thread timeout: any BaseException) at one I/O step of the history --
        # inside a request or inside a read of a response; that exchange "did not end cleanly" by the caller's doing, and half of
        # these histories make the interrupted request a preloading one whose body arrives later than its header block
        sc["step_faults"] = [{"at": rng.randrange(1, 30), "kind": "intr"}]
        if rng.random() < 0.5:
            cfg["preload"] = True
    return sc


def gen_exchange(rng) -> dict:
    c = rng.random()
    st = rng.choice([200, 200, 200, 204, 304, 404, 500, 103, 205])
    ex = {"k": "resp", "status": st, "body": {"tag": rng.choice([1, 2, 30])}}
    if c < 0.55:
        ex["framing"] = rng.choice(["cl", "chunked"])
        if ex["framing"] == "chunked":
            ex["chunks"] = [rng.choice([1, 3, 16])]
        r = rng.random()
        if r < 0.30:
            ex["stray"] = rng.choice([FORGED, FORGED, "\r\n", "garbage!", "HTTP/1.1 500 X\r\nX-Forged: 1\r\nContent-Length: 0\r\n\r\n"])
            ex["stray_delay"] = rng.choice([0.0, 0.0, 1.0])
        elif r < 0.45:
            ex["end"] = "idle_close"
            ex["close_delay"] = rng.choice([0.0, 1.0, 5.0])
        elif r < 0.55:
            ex["keepalive"] = False
        elif r < 0.65:
            ex["split"] = [rng.choice([20, 40, 60]), rng.choice([0.5, 3.0])]
        elif r < 0.75:
            if ex["framing"] == "chunked":
                # (the embedded message must be contiguous on the wire: it sits in one big chunk, possibly after a small first one --
                #  a read1(k) that gets only those three bytes has NOT reached the end of the body)
                ex["chunks"] = rng.choice([[100000], [3, 100000]])
            # the tail of the body is itself a complete HTTP response and arrives late: if the caller lets go of this
            # response early, only the connection's own bookkeeping keeps that tail from answering the next request
            ex["body"] = {"tag": ex["body"]["tag"], "embed": True}
            ex["split_embed"] = rng.choice([0.5, 3.0])
            if rng.random() < 0.4:
                # nothing of the body has arrived when the header block has: the body *is* the embedded message
                ex["body"] = {"tag": 0, "embed": True}
                del ex["split_embed"]
                ex["split_head"] = rng.choice([0.5, 3.0])
        elif r < 0.83 and ex["framing"] == "chunked":
            # a chunked body that goes wrong after some complete chunks: a chunk-size line that is no number, on a connection the
            # server keeps open, and -- later -- bytes that look like a complete response.  Reading fails (that is allowed); the
            # connection must not serve anything else.
            ex["chunks"] = [3]
            ex["cut_body"] = 8 * rng.choice([1, 1, 2, 4])  # "3\r\nxxx\r\n" is 8 bytes: the cut falls between two chunks
            ex["end"] = "keep"
            ex["stray"] = "ZZ\r\n"
            ex["stray_delay"] = 0.0
            ex["stray2"] = FORGED
            ex["stray2_delay"] = rng.choice([0.5, 3.0])
        if st == 103:
            # an interim response followed by the final one on the same connection
            ex["stray"] = FORGED
            ex["stray_delay"] = rng.choice([0.0, 1.0])
        return ex
    if c < 0.70:
        ex["framing"] = "close"
        return ex
    if c < 0.80:  # truncated: whatever arrives is (a prefix of) this request's own response
        ex["framing"] = rng.choice(["cl", "chunked"])
        ex["cut"] = rng.choice([10, 30, 50, 80])
        ex["end"] = rng.choice(["eof", "rst"])
        return ex
    if c < 0.86:
        return {"k": "eof"}
    if c < 0.90:
        return {"k": "rst"}
    if c < 0.94:
        return {"k": "stall"}
    ex["framing"] = "cl"
    ex["interim"] = [rng.choice([100, 102, 103])]
    return ex


def cases(seed, k, tier):
    yield gen(rng_for(seed, ID, k))


_TAG = re.compile(rb"\[(\w+) (\S+) #(\d+)\]")


def run(sc: dict) -> Result:
    res = Result()
    cfg = sc["config"]
    w = H.std_world(sc)
    with H.RunEnv(), H.quiet_warnings(), w:
        cl = H.Client(cfg)
        live = {}
        delivered = {}  # request id -> (path, status, bytes, headers)

        def call(where, fn):
            try:
                return True, fn()
            except (W.SimHang, W.StepLimit) as e:
                res.bad("hang@" + where, str(e))
                return False, e
            except W.SimInterrupt as e:
                res.probes["interrupted@" + ("request" if where == "request" else "read")] += 1
                H.strip_tb(e)
                return False, e
            except Exception as e:
                if H.is_raw_io_error(e):
                    res.probes["raw:" + type(e).__name__] += 1
                H.strip_tb(e)
                return False, e

        def got(rid, data):
            if data:
                delivered[rid][2] += data

        for op in sc["ops"]:
            kind = op["op"]
            if kind == "advance":
                w.advance(op["d"])
            elif kind == "request":
                body, _ = H.mk_body(op.get("body"))
                ok, out = call("request", lambda: cl.urlopen(op["method"], op["path"], body=body, preload_content=cfg["preload"], redirect=False))
                if ok:
                    live[op["id"]] = out
                    src = next((e[2] for e in reversed(w.events) if e[1] == "recv"), None)
                    delivered[op["id"]] = [op["path"], out.status, bytearray(), out.headers, op["method"], src]
                    if cfg["preload"]:
                        got(op["id"], out.data)
                out = None  # `live` is the caller's only reference: once the response is disposed and dropped it really is gone
            elif kind == "dispose":
                r = live.pop(op["of"], None)
                if r is None:
                    continue
                rid, how, kk = op["of"], op["how"], op.get("k", 3)
                if how in ("read_all", "data"):
                    ok, d = call(how, r.read if how == "read_all" else (lambda: r.data))
                    if ok and isinstance(d, bytes) and not cfg["preload"]:
                        got(rid, d)
                    call("release", r.release_conn)
                elif how == "read_k_release":
                    if op.get("but1") and (getattr(r, "length_remaining", None) or 0) > 1:
                        kk = r.length_remaining - 1  # everything but the last byte: the smallest amount that can be left behind
                    ok, d = call(how, lambda: r.read(kk))
                    if ok and not cfg["preload"]:
                        got(rid, d)
                    call("release", r.release_conn)
                elif how in ("read1_k_release", "read1_rest_release", "readinto_k_release"):
                    # one piece through the other read APIs (read1 asked for exactly what is still expected may well get less),
                    # then released
                    if how == "readinto_k_release":
                        buf = bytearray(kk)
                        ok, d = call(how, lambda: r.readinto(buf))
                        d = bytes(buf[:d]) if ok and isinstance(d, int) else b""
                    else:
                        n_ = kk if how == "read1_k_release" or not r.length_remaining else r.length_remaining
                        ok, d = call(how, lambda: r.read1(n_))
                    if ok and isinstance(d, bytes) and not cfg["preload"]:
                        got(rid, d)
                    call("release", r.release_conn)
                elif how == "release_unread":
                    call(how, r.release_conn)
                elif how == "drain":
                    call(how, r.drain_conn)
                elif how == "close_release":
                    call(how, r.close)
                    call("release", r.release_conn)
                elif how == "close_only":
                    call(how, r.close)
                elif how in ("stream_all", "stream_part_release"):
                    def _s():
                        n = 0
                        for piece in r.stream(kk):
                            if not cfg["preload"]:
                                got(rid, piece)
                            n += 1
                            if how == "stream_part_release" and n >= 2:
                                break
                    call(how, _s)
                    call("release", r.release_conn)
                elif how == "drop":
                    r = None
                    H.collect()
                r = None
                # the caller lets go of the response object after every disposal; make its finalisation happen now, not at some
                # later collection (it closes the http.client response, which is what guards a half-read connection)
                H.collect()
        live.clear()
        # ---- oracle
        by_target = {}
        for q in w.requests:
            a = w.answers.get(q.idx)
            if a is not None:
                by_target.setdefault(q.target, []).append((q.idx, a[0], a[1]))
                for st in a[3]:
                    by_target[q.target].append((q.idx, st, b""))
        for rid, (path, status, data, headers, method, src) in delivered.items():
            data = bytes(data)
            tags = w.sockets[src].tags if src is not None else {}
            if tags.get("ambiguous"):
                res.probes["ambiguous_skipped"] += 1
                continue
            if tags.get("dirty_at_write") and not tags.get("opaque"):
                # (on a TLS carrier the record layer legitimately writes while handshake records are still unread; there the verdict
                #  rests on the tagged plaintext below)
                res.bad("dirty_reuse", f"{rid}: response returned from socket {src}, onto which a request was written while unsolicited bytes/EOF were pending")
            if headers.get("X-Forged") is not None:
                res.bad("cross_talk:forged_response_accepted", f"{rid}: response carries X-Forged (status {status})")
                continue
            cands = by_target.get(path, [])
            okc = [c for c in cands if c[1] == status and c[2].startswith(data)]
            if not okc:
                res.bad("cross_talk:foreign_bytes", f"{rid} {method} {path}: status {status}, {data[:60]!r} matches no answer generated for it ({[(c[0], c[1], c[2][:30]) for c in cands]})")
                continue
        # a connection on which an exchange was cut short (whatever the server does afterwards) never carries another request
        for q in w.requests:
            ua = w.sockets[q.sid].tags.get("unclean_after")
            # (only if the client had received every byte of the cut exchange before it wrote again: where earlier unsolicited bytes
            #  were taken for the answer the client never saw the cut response at all -- the "ambiguous" zone above)
            if ua is not None and q.idx > ua and q.method != "CONNECT" and w.sockets[q.sid].tags.get("wrote_after_unclean_seen"):
                res.bad("unclean_connection_reused", f"request {q.idx} ({q.method} {q.target}) was written on socket {q.sid}, whose exchange {ua} had been cut short by the server")
                break
        # ... and so does a connection whose exchange the caller abandoned through an interrupt: whatever of that exchange is still on
        # its way would answer the next request
        for q in w.requests:
            ia = w.sockets[q.sid].tags.get("interrupted_at_request")
            if ia is not None and q.idx >= ia and q.method != "CONNECT":
                res.bad("interrupted_connection_reused", f"request {q.idx} ({q.method} {q.target}) was written on socket {q.sid} after an interrupt had abandoned an exchange on it")
                break
        if any(s_.tags.get("interrupted_at_request") is not None for s_ in w.sockets):
            res.probes["interrupt_on_a_connection"] += 1
        if any(s_.tags.get("dirty_at_write") for s_ in w.sockets):
            res.probes["request_written_on_dirty_socket"] += 1
        sids = [q.sid for q in w.requests]
        if len(sids) != len(set(sids)):
            res.probes["reused_connection"] += 1
        if any(e[1] == "poll" and e[3][1] for e in w.events):
            res.probes["dirty_checkout_discarded"] += 1
        if any((ex.get("stray") or "").find("X-Forged") >= 0 for ex in sc["exchanges"][: len(w.requests)]):
            res.probes["forged_offered"] += 1
        if any(ex.get("split_embed") is not None or ex.get("split_head") is not None for ex in sc["exchanges"][: len(w.requests)]) and any(o["op"] == "dispose" and o["how"] in ("read_k_release", "release_unread", "stream_part_release", "read1_k_release", "read1_rest_release", "readinto_k_release") for o in sc["ops"]):
            res.probes["embedded_tail_in_flight_after_early_release"] += 1
        if cfg["path"] == "direct_tls" and len(sids) != len(set(sids)):
            res.probes["tls_connection_reused"] += 1
        res.faults.update(w.faults_fired)
        cl.pool.close()
        cl = None
        res.digest = w.digest()
        res.trace = hash(w.abstract_trace())
        res.nontrivial = bool(w.faults_fired) or len(sids) != len(set(sids))
        res.sim_s = w.now - W.VClock.START
        res.steps = w.io_step
    return res


def shrinks(sc):
    ops = sc["ops"]
    for rid in [o["id"] for o in ops if o["op"] == "request"]:
        c = copy.deepcopy(sc)
        c["ops"] = [o for o in ops if not ((o["op"] == "request" and o["id"] == rid) or (o["op"] == "dispose" and o["of"] == rid))]
        if c["ops"]:
            yield c
    for i, o in enumerate(ops):
        if o["op"] in ("advance", "dispose"):
            c = copy.deepcopy(sc)
            del c["ops"][i]
            yield c
    for i in range(len(sc["exchanges"])):
        c = copy.deepcopy(sc)
        del c["exchanges"][i]
        yield c
    for i, ex in enumerate(sc["exchanges"]):
        for fld in ("stray", "split", "split_embed", "split_head", "end", "interim", "keepalive", "cut", "chunks", "stray_delay", "close_delay"):
            if fld in ex:
                c = copy.deepcopy(sc)
                del c["exchanges"][i][fld]
                yield c
    for i, o in enumerate(ops):
        if o["op"] == "request" and o["method"] != "GET":
            c = copy.deepcopy(sc)
            c["ops"][i]["method"] = "GET"
            c["ops"][i].pop("body", None)
            yield c
        if o["op"] == "dispose" and o["how"] != "read_all":
            c = copy.deepcopy(sc)
            c["ops"][i]["how"] = "read_all"
            yield c
    for fld, simple in (("path", "direct"), ("maxsize", 1), ("retries", 0), ("preload", False)):
        if sc["config"].get(fld) != simple:
            c = copy.deepcopy(sc)
            c["config"][fld] = simple
            yield c
    if sc["seg"].get("mode") != "whole":
        c = copy.deepcopy(sc)
        c["seg"] = {"mode": "whole"}
        yield c


KNOWN = {}
