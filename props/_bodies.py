"""Response bodies for C12/C13: deterministic payloads, content codings, transfer
framings, and the byte offsets that matter (body start, chunk / member / frame
boundaries).  Everything is a pure function of the JSON spec, so replay files stay
small."""
from __future__ import annotations

import random
import zlib

import zstandard

CODINGS = ["identity", "gzip", "gzip_multi", "deflate", "deflate_raw", "zstd", "zstd_multi", "x-gzip"]
STACKS = [["gzip", "deflate"], ["deflate", "gzip"], ["gzip", "gzip"], ["zstd", "gzip"], ["gzip", "zstd"], ["deflate_raw", "gzip"]]
HEADER_NAME = {"gzip": "gzip", "gzip_multi": "gzip", "x-gzip": "x-gzip", "deflate": "deflate", "deflate_raw": "deflate", "zstd": "zstd", "zstd_multi": "zstd"}


def make_payload(spec: dict) -> bytes:
    n = int(spec["size"])
    kind = spec.get("kind", "compressible")
    seed = spec.get("seed", 0)
    if n == 0:
        return b""
    if kind == "random":
        return random.Random(seed).randbytes(n)
    if kind == "lines":
        rng = random.Random(seed)
        out = bytearray()
        while len(out) < n:
            out += (b"line %d " % rng.randrange(1000)) * rng.randrange(0, 4) + b"\n"
        return bytes(out[:n])
    unit = b"%d:the quick brown fox jumps over the lazy dog;" % seed
    return (unit * (n // len(unit) + 1))[:n]


def _gzip(data: bytes) -> bytes:
    c = zlib.compressobj(6, zlib.DEFLATED, 31)
    return c.compress(data) + c.flush()


def _deflate(data: bytes) -> bytes:
    return zlib.compress(data, 6)


def _deflate_raw(data: bytes) -> bytes:
    c = zlib.compressobj(6, zlib.DEFLATED, -15)
    return c.compress(data) + c.flush()


def _zstd(data: bytes) -> bytes:
    return zstandard.ZstdCompressor(level=3).compress(data)


def encode_one(data: bytes, coding: str, split_at: int | None = None, members: int = 2):
    """-> (coded bytes, inner boundaries (offsets in the coded bytes))"""
    if coding == "identity":
        return data, []
    if coding in ("gzip", "x-gzip"):
        return _gzip(data), []
    if coding == "deflate":
        return _deflate(data), []
    if coding == "deflate_raw":
        return _deflate_raw(data), []
    if coding == "zstd":
        return _zstd(data), []
    if coding in ("gzip_multi", "zstd_multi"):
        k = len(data) // 2 if split_at is None else max(0, min(split_at, len(data)))
        f = _gzip if coding == "gzip_multi" else _zstd
        if members > 2:
            # first cut at k, the rest of the data in equal parts: members/frames of every size, empty ones included
            cuts = [k] + [k + (len(data) - k) * i // (members - 1) for i in range(1, members - 1)]
            parts = [data[i:j] for i, j in zip([0] + cuts, cuts + [len(data)])]
            coded = [f(x) for x in parts]
            bounds, pos = [], 0
            for c_ in coded[:-1]:
                pos += len(c_)
                bounds.append(pos)
            return b"".join(coded), bounds
        a, b = f(data[:k]), f(data[k:])
        return a + b, [len(a)]
    raise ValueError(coding)


def build(spec: dict) -> dict:
    """spec: payload{size,kind,seed}, coding (str or list = stack, first applied first), framing cl|chunked|close,
    chunks [sizes], chunk_ext bool, split_at (for *_multi), status, extra."""
    payload = make_payload(spec["payload"])
    coding = spec.get("coding", "identity")
    stack = coding if isinstance(coding, list) else [coding]
    body = payload
    inner = []
    for c in stack:
        body, b = encode_one(body, c, spec.get("split_at"), int(spec.get("members", 2)))
        inner = b  # boundaries of the outermost coding only
    full_coded_len = len(body)
    if spec.get("coded_keep") is not None:
        body = body[: int(spec["coded_keep"])]  # the server framed a truncated coded stream correctly
    names = [HEADER_NAME[c] for c in stack if c != "identity"]
    head = [b"HTTP/1.1 200 OK", b"Server: sim"]
    if names:
        ce = ", ".join(names)
        if spec.get("ce_upper"):
            ce = ce.upper()
        head.append(b"Content-Encoding: " + ce.encode())
    framing = spec.get("framing", "cl")
    bounds = []
    if framing == "cl":
        head.append(b"Content-Length: %d" % len(body))
        framed = body
        pos_map = lambda off: off  # noqa: E731
    elif framing == "close":
        head.append(b"Connection: close")
        framed = body
        pos_map = lambda off: off  # noqa: E731
    elif framing == "chunked":
        head.append(b"Transfer-Encoding: chunked")
        sizes = [int(x) for x in (spec.get("chunks") or [])]
        out = bytearray()
        pos = 0
        i = 0
        ext = b";ext=1" if spec.get("chunk_ext") else b""
        if spec.get("chunk_ext") == "long":
            ext = b";chunk-signature=" + b"0123456789abcdef" * 5  # a size line of about a hundred bytes (extensions are unbounded by the grammar)
        offs = {}
        while pos < len(body):
            n = sizes[i % len(sizes)] if sizes else len(body) - pos
            n = max(1, min(n, len(body) - pos))
            bounds.append(len(out))  # start of a chunk-size line
            # (chunk_pad: sizes written with leading zeros -- legal: chunk-size = 1*HEXDIG)
            size = (b"%0" + str(int(spec["chunk_pad"])).encode() + b"x" if spec.get("chunk_pad") else b"%x") % n
            if spec.get("chunk_hex_upper"):
                size = size.upper()  # HEXDIG is case-insensitive
            out += size + (ext if i % 2 == 0 else b"") + b"\r\n"
            offs[pos] = len(out)
            bounds.append(len(out))  # start of chunk data
            out += body[pos : pos + n] + b"\r\n"
            pos += n
            i += 1
        bounds.append(len(out))  # start of the last-chunk line
        out += b"0\r\n\r\n"
        framed = bytes(out)

        def pos_map(off, offs=offs):
            # offset in the coded body -> offset in the framed body (start of containing chunk data + delta)
            best = max((p for p in offs if p <= off), default=0)
            return offs.get(best, 0) + (off - best)
    else:
        raise ValueError(framing)
    head_bytes = b"\r\n".join(head) + b"\r\n\r\n"
    wire = head_bytes + framed
    hb = len(head_bytes)
    boundaries = sorted(set([hb] + [hb + b for b in bounds] + [hb + pos_map(b) for b in inner] + [len(wire)]))
    return {
        "wire": wire,
        "head_len": hb,
        "framed_len": len(framed),
        "decoded": payload,
        "raw": body,
        "boundaries": boundaries,
        "inner": [hb + pos_map(b) for b in inner],
        "coded": bool(names),
        "stack": stack,
        "full_coded_len": full_coded_len,
        "last_chunk_line": (hb + bounds[-1]) if framing == "chunked" else None,
        "size_lines": [(hb + bounds[i], hb + bounds[i + 1]) for i in range(0, len(bounds) - 1, 2)] if framing == "chunked" else [],
    }
