"""C09 -- proxied traffic follows the documented routing and never leaks outside it.
Engine: simnet + in-memory TLS; one observer at the proxy, one at the origin."""
from __future__ import annotations

import copy
import hashlib

from simkit import harness as H
from simkit import peers as P
from simkit import tls as T
from simkit import world as W
from simkit.runner import Result, rng_for

ID = "C09"
ENGINE = "simnet"
LEVEL = "exploration"
TECHNIQUE = "deterministic network simulation with a scripted proxy (CONNECT replies, closes) and TLS-in-TLS in memory; what the proxy observer saw vs what the origin observer saw"
LEVEL_TEXT = (
    "Seeded (proxy scheme, destination scheme, forwarding opt-in drawn for every scheme pair, proxy cert ok/bad, origin cert ok/bad, CONNECT reply 200/403/407/502/garbage/EOF, proxy_headers, request headers, "
    "destination host form and port) x sequences of 1-3 requests with the tunnel or proxy connection closed in between; observers at the simulated proxy and inside the tunnel "
    "record every message, SNI and plaintext byte. Sampling."
)
LEVEL_NOTE = "trusted: the scripted proxy model (absolute-form forwarding, CONNECT then byte pipe), TLS via SSLTransport; the Host field inside the tunnel is C15's business"
N = {"quick": 12000, "thorough": 180000}
BUDGET = {"quick": 50, "thorough": 420}
RULE = "index k -> one routing cell + request sequence. Non-trivial = proxy involved with TLS or a refusal/close; distinct = distinct cell tuple."
ASSUMPTIONS = ["a garbage CONNECT reply is not a status-coded refusal: any urllib3 error with an empty origin log is accepted there"]
REQUIRED_PROBES = {
    "quick": ["tunnel_ok", "forward_ok", "forward_https_optin", "optin_flag_without_effect", "prelude_forwarded_with_same_headers_object", "retunnel_refused_proxy_error", "shared_context_for_proxy_and_destination", "connect_refused_no_leak", "proxy_cert_bad_no_leak", "origin_cert_bad_no_request", "retunnelled_after_close", "ipv6_connect_bracketed", "tls_in_tls", "proxy_headers_kept_out_of_tunnel", "impostor_with_proxys_certificate_refused"],
    "thorough": ["tunnel_ok", "forward_ok", "forward_https_optin", "optin_flag_without_effect", "prelude_forwarded_with_same_headers_object", "retunnel_refused_proxy_error", "shared_context_for_proxy_and_destination", "connect_refused_no_leak", "proxy_cert_bad_no_leak", "origin_cert_bad_no_request", "retunnelled_after_close", "ipv6_connect_bracketed", "tls_in_tls", "proxy_headers_kept_out_of_tunnel", "impostor_with_proxys_certificate_refused"],
}

DEST_HOSTS = {"name": "origin.test", "ip4": "10.0.0.5", "ip6": "[fd00::5]", "upper": "Origin.Test"}
PROXY_HDRS = [["Proxy-Authorization", "Basic cHJveHk6c2VjcmV0"], ["X-Proxy-Token", "tok-123"]]


def gen(rng):
    ps = rng.choice(["http", "http", "https"])
    ds = rng.choice(["http", "https", "https"])
    cell = {
        "proxy_scheme": ps,
        "dest_scheme": ds,
        # the opt-in flag is drawn for every (proxy scheme, destination scheme): it is documented to take effect only for an https
        # destination behind an https proxy; anywhere else it must change nothing
        "forwarding": rng.random() < 0.4,
        "proxy_cert": "ok" if ps == "http" or rng.random() < 0.8 else "bad",
        "origin_cert": "ok" if rng.random() < 0.8 else rng.choice(["bad_issuer", "mismatch"]),
        # ("200_then_N": the first tunnel is granted, every later CONNECT -- the re-tunnelling of a pooled connection -- is refused)
        "connect": rng.choice(["200", "200", "200", "403", "407", "502", "garbage", "eof", "200_then_407", "200_then_502"]),
        "proxy_headers": rng.choice([[], [PROXY_HDRS[0]], PROXY_HDRS]),
        "req_headers": rng.choice([[], [["X-App", "1"]], [["Authorization", "Bearer app"], ["X-App", "1"]]]),
        "host": rng.choice(list(DEST_HOSTS)),
        "port": rng.choice([None, None, 8444]),
        "nreq": rng.choice([1, 1, 2, 3]),
        "close_between": rng.choice(["none", "origin_close", "proxy_idle_close", "none"]),
        # a forwarded plain-http request through the same manager, made with the very same headers mapping, before the main sequence
        # ("redirect": that request is answered 302 -> the main URL, so the manager itself carries the mapping across schemes)
        "prelude_http": rng.choice([False, False, False, False, "plain", "redirect"]),
        # one caller-built SSLContext serves both the proxy hop (with proxy_assert_hostname) and the tunnelled destination:
        # what urllib3 switches on the context for the first handshake must not weaken the second
        "shared_ctx": ps == "https" and ds == "https" and rng.random() < 0.35,
    }
    if ds == "https" and cell["host"] == "name" and not cell["forwarding"] and not cell["prelude_http"] and not cell["shared_ctx"] and rng.random() < 0.5:
        # the destination's TLS name given explicitly (server_hostname=): it concerns the handshake inside the tunnel only -- an
        # https proxy is still verified under its own name.  "dest_name": the proxy presents a trusted certificate issued for the
        # destination's name instead of its own
        cell["server_hostname"] = "origin.test"
        if ps == "https" and rng.random() < 0.5:
            cell["proxy_cert"] = "dest_name"
    if ps == "http" and ds == "https" and not cell["forwarding"] and not cell["shared_ctx"] and cell["origin_cert"] == "ok" and rng.random() < 0.15:
        # the proxy's identity keywords given although the proxy speaks plain http (legal, without effect there), and an impostor at
        # the far end of the tunnel that presents exactly the certificate those keywords describe: they are the *proxy's* checks and
        # say nothing about the destination, whose certificate must match the destination's name
        cell["proxy_verify"] = rng.choice(["pin_match", "name_match"])
        cell["origin_cert"] = "proxys_own"
    if ps == "https" and cell["proxy_cert"] == "ok" and not cell["shared_ctx"] and rng.random() < 0.4:
        # the proxy's own identity checks beyond the chain: a pinned fingerprint (of the certificate it serves, or of another one
        # from the same trusted CA) and an asserted name (its own, or another)
        cell["proxy_verify"] = rng.choice(["pin_match", "pin_other", "pin_other", "name_match", "name_other"])
        if cell["proxy_verify"] in ("pin_match", "name_match") and ds == "https" and not cell["forwarding"] and cell["origin_cert"] == "ok" and rng.random() < 0.4:
            cell["origin_cert"] = "proxys_own"  # (as above, behind an https proxy that passes its own checks)
    return {"property": ID, "cell": cell}


def cases(seed, k, tier):
    yield gen(rng_for(seed, ID, k))


def run(sc: dict) -> Result:
    from urllib3.exceptions import ProxyError, SSLError

    res = Result()
    urllib3 = H.u3()
    c = sc["cell"]
    ps, ds = c["proxy_scheme"], c["dest_scheme"]
    host = DEST_HOSTS[c["host"]]
    port = c["port"]
    dport = port or (443 if ds == "https" else 80)
    fwd_applies = bool(c["forwarding"]) and ps == "https" and ds == "https"
    if c["forwarding"] and not fwd_applies:
        res.probes["optin_flag_without_effect"] += 1
    tunnel_expected = ds == "https" and not fwd_applies
    connects = []
    if tunnel_expected:
        k = c["connect"]
        if k == "200":
            pass
        elif k.startswith("200_then_"):
            connects = [{"k": "resp", "status": 200}] + [{"k": "resp", "status": int(k[9:])}] * 4
        elif k in ("403", "407", "502"):
            connects = [{"k": "resp", "status": int(k)}] * 4
        elif k == "garbage":
            connects = [{"k": "garbage", "data": "\x16\x03\x01 not http\r\n\r\n"}] * 4
        else:
            connects = [{"k": "eof"}] * 4
    exchanges = []
    for i in range(c["nreq"]):
        ex = {"k": "resp", "status": 200, "body": {"tag": 1}}
        if c["close_between"] == "origin_close" and i < c["nreq"] - 1:
            ex["keepalive"] = False
        if c["close_between"] == "proxy_idle_close" and i < c["nreq"] - 1:
            ex["end"] = "idle_close"
            ex["close_delay"] = 0.5
        exchanges.append(ex)
    w = W.World({"connects": connects, "exchanges": exchanges})
    origin_cert = {"ok": "any", "bad_issuer": "bad_any", "mismatch": "other", "proxys_own": "proxy"}[c["origin_cert"]]
    origin_tls = []

    def tunnel_factory(world, chan, target):
        tp = T.TlsPeer(world, chan, lambda w_, ch: P.HttpPeer(w_, ch, "origin", "origin", True), cert=origin_cert, name="origin")
        origin_tls.append(tp)
        return tp

    w.tunnel_factory = tunnel_factory
    proxy_cert = {"ok": "proxy", "dest_name": "origin"}.get(c["proxy_cert"], "bad_proxy")
    if ps == "https":
        w.default_listener = lambda w_, chan: T.TlsPeer(w_, chan, lambda w2, ch: P.HttpPeer(w2, ch, "proxy", "proxy", True), cert=proxy_cert, name="proxy")
    else:
        w.default_listener = H.origin_factory("proxy", "proxy")
    url = f"{ds}://{host}" + (f":{port}" if port else "") + "/res"
    proxy_url = f"{ps}://proxy.test:{8443 if ps == 'https' else 3128}"
    ph = {k_: v_ for k_, v_ in c["proxy_headers"]}
    rh = {k_: v_ for k_, v_ in c["req_headers"]} or None
    if c.get("prelude_http") and rh is None:
        rh = {}
    with H.RunEnv(), H.quiet_warnings(), w:
        kw = dict(ca_certs=T.CA_GOOD, retries=False, timeout=3.0, proxy_headers=ph or None)
        if c.get("shared_ctx"):
            from urllib3.util.ssl_ import create_urllib3_context

            ctx_ = create_urllib3_context()
            ctx_.load_verify_locations(T.CA_GOOD)
            kw.pop("ca_certs")
            kw.update(ssl_context=ctx_, proxy_ssl_context=ctx_, proxy_assert_hostname="proxy.test")
            res.probes["shared_context_for_proxy_and_destination"] += 1
        if c.get("server_hostname"):
            kw["server_hostname"] = c["server_hostname"]
            res.probes["server_hostname_given"] += 1
        pv = c.get("proxy_verify")
        if pv in ("pin_match", "pin_other"):
            import hashlib as _hl

            kw["proxy_assert_fingerprint"] = _hl.sha256(T.der("proxy" if pv == "pin_match" else "origin")).hexdigest()
        elif pv in ("name_match", "name_other"):
            kw["proxy_assert_hostname"] = "proxy.test" if pv == "name_match" else "elsewhere.test"
        if pv:
            res.probes["proxy_verify:" + pv] += 1
        if c["forwarding"]:
            kw["use_forwarding_for_https"] = True
        pm = urllib3.ProxyManager(proxy_url, **kw)
        outcomes = []
        prelude_reached_destination = 0
        if c.get("prelude_http"):
            try:
                if c["prelude_http"] == "redirect":
                    w.exchanges.insert(0, {"k": "resp", "status": 302, "headers": [["Location", url + "?i=r"]], "body": ""})
                    pm.request("GET", f"http://{host}/pre", headers=rh, retries=1)
                    prelude_reached_destination = 1
                else:
                    pm.request("GET", f"http://{host}/pre", headers=rh)
                res.probes["prelude_forwarded_with_same_headers_object"] += 1
            except (W.SimHang, W.StepLimit) as e:
                res.bad("hang", str(e))
            except Exception as e:
                H.strip_tb(e)
        for i in range(c["nreq"]):
            try:
                r = pm.request("GET", url + f"?i={i}", headers=rh)
                outcomes.append(("ok", r.status))
            except (W.SimHang, W.StepLimit) as e:
                outcomes.append(("hang", e))
                res.bad("hang", str(e))
                break
            except Exception as e:
                H.strip_tb(e)
                outcomes.append(("exc", e))
            if c["close_between"] != "none":
                w.advance(2.0)
        # ---- observers
        at_proxy = [q for q in w.requests if q.peer == "proxy" and not q.target.endswith("/pre")]
        at_origin = [q for q in w.requests if q.peer == "origin"]
        origin_plain = sum(len(tp.plain_in) for tp in origin_tls)
        ph_names = {k_.lower() for k_, _ in c["proxy_headers"]}
        proxy_should_fail_tls = ps == "https" and (c["proxy_cert"] in ("bad", "dest_name") or c.get("proxy_verify") in ("pin_other", "name_other"))
        refused_later = tunnel_expected and c["connect"].startswith("200_then_")
        connect_refused = tunnel_expected and c["connect"] != "200" and not refused_later
        origin_bad = tunnel_expected and c["origin_cert"] != "ok" and not proxy_should_fail_tls and not connect_refused
        # 1. nothing addressed to the origin ever carries proxy headers
        for q in at_origin:
            leaked = [k_ for k_, _ in q.headers if k_.lower() in ph_names]
            if leaked:
                res.bad("proxy_header_inside_tunnel", f"{leaked} in the origin's plaintext: {q.headers}")
        if tunnel_expected and at_origin and ph_names:
            res.probes["proxy_headers_kept_out_of_tunnel"] += 1
        # 2. routing form
        for q in at_proxy:
            if ds == "https" and not fwd_applies:
                if q.method != "CONNECT":
                    res.bad("https_not_tunnelled", f"proxy received {q.method} {q.target} for an https destination without forwarding opt-in")
            else:
                if q.method == "CONNECT":
                    res.bad("unexpected_tunnel", f"CONNECT {q.target} although absolute-form forwarding applies")
                elif "://" not in q.target:
                    res.bad("not_absolute_form", f"forwarded request target {q.target!r}")
                elif not q.target.lower().startswith(f"{ds}://{host.lower()}"):
                    res.bad("wrong_forward_target", f"{q.target!r} for {url!r}")
        if proxy_should_fail_tls:
            if at_proxy or at_origin or origin_plain:
                res.bad("sent_to_unverified_proxy", f"{len(at_proxy)} messages reached a proxy whose certificate is not trusted")
            for o in outcomes:
                if o[0] == "ok":
                    res.bad("unverified_proxy_accepted", "request succeeded through a proxy with an untrusted certificate")
                elif o[0] == "exc" and not isinstance(H.root_reason(o[1]), (SSLError, ProxyError)) and not isinstance(o[1], (SSLError, ProxyError)):
                    res.bad(f"wrong_error:{type(H.root_reason(o[1])).__name__}", repr(o[1])[:160])
            if not res.violations:
                res.probes["proxy_cert_bad_no_leak"] += 1
        elif tunnel_expected:
            for q in at_proxy:
                if q.method == "CONNECT":
                    want = f"{host.lower()}:{dport}"
                    if q.target.lower() != want:
                        res.bad("wrong_connect_target", f"CONNECT {q.target!r}, URL says {want!r}")
                    elif host.startswith("["):
                        res.probes["ipv6_connect_bracketed"] += 1
                    missing = [k_ for k_, _ in c["proxy_headers"] if q.header(k_) is None]
                    if missing:
                        res.bad("proxy_header_missing_on_connect", f"{missing} not on CONNECT: {q.headers}")
            if refused_later and not origin_bad:
                # the first tunnel works; a request that needs a second one must fail as a proxy refusal and never reach the origin
                n_ok = sum(1 for o in outcomes if o[0] == "ok") + prelude_reached_destination
                if len(at_origin) > n_ok:
                    res.bad("request_sent_after_refused_connect", f"{len(at_origin)} requests reached the origin, only {n_ok} calls succeeded (CONNECT answers {c['connect']})")
                for q in at_origin:
                    first_on_sock = next((p_ for p_ in w.requests if p_.sid == q.sid), None)
                    if first_on_sock is None or first_on_sock.method != "CONNECT":
                        res.bad("request_without_tunnel", f"socket {q.sid} carried {q.method} {q.target} without a preceding CONNECT")
                for o in outcomes:
                    if o[0] == "exc":
                        root = H.root_reason(o[1])
                        if not (isinstance(o[1], (ProxyError, SSLError)) or isinstance(root, (ProxyError, SSLError)) or _has_proxy_error(o[1])):
                            res.bad(f"wrong_error:{type(root).__name__}", f"re-tunnelling refused ({c['connect']}): {o[1]!r:.160}")
                        else:
                            res.probes["retunnel_refused_proxy_error"] += 1
            elif connect_refused:
                if at_origin or origin_plain:
                    res.bad("request_sent_after_refused_connect", f"{len(at_origin)} requests / {origin_plain} plaintext bytes reached the origin although CONNECT was answered {c['connect']}")
                for o in outcomes:
                    if o[0] == "ok":
                        res.bad("refused_connect_ignored", f"request succeeded although CONNECT was answered {c['connect']}")
                    elif o[0] == "exc":
                        root = H.root_reason(o[1])
                        if c["connect"] in ("403", "407", "502"):
                            if not (isinstance(o[1], (ProxyError, SSLError)) or isinstance(root, (ProxyError, SSLError)) or _has_proxy_error(o[1])):
                                res.bad(f"wrong_error:{type(root).__name__}", f"CONNECT {c['connect']}: {o[1]!r:.160}")
                        elif not H.is_urllib3_error(o[1]):
                            res.bad(f"raw_exception:{type(o[1]).__name__}", repr(o[1])[:160])
                if not res.violations:
                    res.probes["connect_refused_no_leak"] += 1
            elif origin_bad:
                if at_origin or origin_plain:
                    res.bad("request_sent_to_unverified_origin", f"{origin_plain} plaintext bytes reached an origin failing verification ({c['origin_cert']}) inside the tunnel")
                for o in outcomes:
                    if o[0] == "ok":
                        res.bad("unverified_origin_accepted", f"origin cert {c['origin_cert']}")
                    elif o[0] == "exc" and not isinstance(H.root_reason(o[1]), SSLError) and not isinstance(o[1], SSLError):
                        if refused_later and _has_proxy_error(o[1]):
                            continue  # this attempt did not get as far as the origin: its CONNECT was refused
                        res.bad(f"wrong_error:{type(H.root_reason(o[1])).__name__}", repr(o[1])[:160])
                if not res.violations:
                    res.probes["origin_cert_bad_no_request"] += 1
                    if c["origin_cert"] == "proxys_own":
                        res.probes["impostor_with_proxys_certificate_refused"] += 1
            else:
                # clean tunnel: every request origin-form inside a tunnel whose TLS name is the destination's
                for q in at_origin:
                    if "://" in q.target or not q.target.startswith("/res"):
                        res.bad("not_origin_form_in_tunnel", q.target)
                want_sni = None if c["host"] in ("ip4", "ip6") else host.lower()
                for tp in origin_tls:
                    if tp.handshook and (tp.sni or None) != want_sni:
                        res.bad("wrong_sni_in_tunnel", f"SNI {tp.sni!r}, destination {host!r}")
                wraps = [t for t in w.tls_log if t[0] == "client_wrap"]
                inner_names = [t[2] for t in wraps if (t[2] or "").lower() not in ("proxy.test",)]
                for nme in inner_names:
                    if (nme or "").lower() != host.strip("[]").lower():
                        res.bad("tunnel_tls_verified_against_wrong_name", f"server_hostname {nme!r} for destination {host!r}")
                if all(o[0] == "ok" for o in outcomes) and len(at_origin) == c["nreq"]:
                    res.probes["tunnel_ok"] += 1
                    if ps == "https":
                        res.probes["tls_in_tls"] += 1
                # every socket that carried a request to the origin started with its own CONNECT
                for q in at_origin:
                    first_on_sock = next((p_ for p_ in w.requests if p_.sid == q.sid), None)
                    if first_on_sock is None or first_on_sock.method != "CONNECT":
                        res.bad("request_without_tunnel", f"socket {q.sid} carried {q.method} {q.target} without a preceding CONNECT")
                sids = sorted({q.sid for q in at_origin})
                if len(sids) >= 2:
                    res.probes["retunnelled_after_close"] += 1
                for o in outcomes:
                    if o[0] == "exc":
                        res.probes["clean_cell_error:" + type(H.root_reason(o[1])).__name__] += 1
        else:
            for q in at_proxy:
                missing = [k_ for k_, _ in c["proxy_headers"] if q.header(k_) is None]
                if missing:
                    res.bad("proxy_header_missing_on_forward", f"{missing}: {q.headers}")
            if all(o[0] == "ok" for o in outcomes) and len(at_proxy) == c["nreq"]:
                res.probes["forward_ok"] += 1
                if fwd_applies:
                    res.probes["forward_https_optin"] += 1
        pm.clear()
        res.faults.update(w.faults_fired)
        res.digest = hashlib.sha256(repr((c, [o[0] for o in outcomes], [(q.peer, q.method, q.target) for q in w.requests])).encode()).hexdigest()[:16]
        res.trace = hash(repr(c))
        res.nontrivial = ps == "https" or ds == "https" or c["close_between"] != "none"
        res.sim_s = w.now - W.VClock.START
        res.steps = w.io_step
    return res


def _has_proxy_error(e) -> bool:
    from urllib3.exceptions import ProxyError

    seen = 0
    while e is not None and seen < 6:
        if isinstance(e, ProxyError):
            return True
        e = getattr(e, "reason", None) or e.__cause__
        seen += 1
    return False


def shrinks(sc):
    simple = {"shared_ctx": False, "prelude_http": False, "proxy_scheme": "http", "dest_scheme": "https", "forwarding": False, "proxy_cert": "ok", "origin_cert": "ok", "connect": "200", "proxy_headers": [], "req_headers": [], "host": "name", "port": None, "nreq": 1, "close_between": "none", "proxy_verify": None, "server_hostname": None}
    for k, v in simple.items():
        if sc["cell"].get(k, v) != v:
            c = copy.deepcopy(sc)
            c["cell"][k] = v
            yield c


KNOWN = {}
