"""C12 -- every way of reading a response yields the same bytes.
Engine: simnet (the real HTTPConnection/http.client/BufferedReader read a scripted
byte stream delivered in seeded segments)."""
from __future__ import annotations

import copy

from props import _bodies as B
from simkit import harness as H
from simkit import world as W
from simkit.runner import Result, rng_for

ID = "C12"
ENGINE = "simnet"
LEVEL = "exploration"
TECHNIQUE = "deterministic network simulation: payload x framing x coding x seeded socket segmentation x generated read programs; concatenation of pieces vs the generated payload"
LEVEL_TEXT = (
    "Seeded responses (payload sizes 0..>64 KiB, Content-Length / chunked with seeded chunk sizes and extensions / close-delimited, identity/gzip/multi-member gzip/zlib/raw deflate/"
    "zstd/multi-frame zstd/two-coding stacks) delivered through the simulated socket in seeded segmentations (1 byte .. whole, cuts aligned with chunk, member and frame boundaries) "
    "and read by generated programs over read(), read(n), read1(n), read1(), readinto(k), read(0) finished by any read API; also the preloaded .data path. Exhaustive stratum: every call sequence of length <= 2 (quick) / <= 3 (thorough) over {read(n), read1(n), readinto(n): n in 1,2,3,7,64,1000; read(0); read1()} on each of 240 small-response configurations (5 sizes x 8 codings x 3 framings x whole/byte-wise delivery). The rest is sampling."
)
LEVEL_NOTE = "trusted: the payload generator (the reference is the payload that was encoded, no second decoder needed); stream/read_chunked/iteration are only started on an untouched chunked response (mixing them with read(n) on a chunked body shares no state by design)"
N = {"quick": 30000, "thorough": 500000}
BUDGET = {"quick": 50, "thorough": 420}
RULE = (
    "index k -> (payload spec, coding or stack, framing, chunk sizes, segmentation, decode flag, program of <=6 calls, finisher). Non-trivial = body non-empty; distinct = distinct "
    "(payload spec, coding, framing, chunks, segmentation, program, finisher, decode)."
)
ASSUMPTIONS = ["one decode_content value per program (switching True -> False is documented to raise)", "gzip members are written with a zero mtime so the run is deterministic"]
REQUIRED_PROBES = {
    "quick": ["coding:gzip_multi", "coding:zstd_multi", "coding:stack", "framing:chunked", "framing:close", "seg:byte", "seg:cuts", "finisher:stream", "finisher:read_chunked", "finisher:iter", "preload", "decode_off", "big_body", "short_read_at_end", "enumerated_program", "companion_interleaved"],
    "thorough": ["coding:gzip_multi", "coding:zstd_multi", "coding:stack", "framing:chunked", "framing:close", "seg:byte", "seg:cuts", "finisher:stream", "finisher:read_chunked", "finisher:iter", "preload", "decode_off", "big_body", "short_read_at_end"],
}

SIZES = [0, 1, 2, 3, 7, 10, 64, 100, 1000, 1000, 8192, 16384, 20000, 70000, 200000]
AMTS = [1, 2, 3, 7, 64, 1000, 65536]
FINISHERS = ["read_all", "read_n_loop", "read1_loop", "read1_none_loop", "stream", "read_chunked", "iter", "readinto_loop", "data", "stream_none", "read_chunked_none", "read_neg"]


def gen_response(rng):
    size = rng.choice(SIZES)
    if size > 20000 and rng.random() < 0.6:
        size = rng.choice([100, 1000, 5000])
    c = rng.random()
    if c < 0.2:
        coding = "identity"
    elif c < 0.85:
        coding = rng.choice(B.CODINGS[1:])
    else:
        coding = rng.choice(B.STACKS)
    spec = {"payload": {"size": size, "kind": rng.choice(["compressible", "compressible", "random", "lines"]), "seed": rng.randrange(1000)}, "coding": coding, "framing": rng.choice(["cl", "cl", "chunked", "chunked", "close"])}
    if spec["framing"] == "chunked":
        spec["chunks"] = [rng.choice([1, 2, 3, 7, 10, 16, 100, 255, 1000, 5000, 100000]) for _ in range(rng.choice([1, 1, 2, 3]))]
        spec["chunk_ext"] = rng.random() < 0.3
        if spec["chunk_ext"] and rng.random() < 0.35:
            spec["chunk_ext"] = "long"
        if rng.random() < 0.3:
            spec["chunk_hex_upper"] = True  # chunk sizes written in upper-case hex
        avg = sum(spec["chunks"]) / len(spec["chunks"])
        if size / avg > 3000:  # keep the number of chunks (and socket reads) bounded
            k = int(size / avg / 3000) + 1
            spec["chunks"] = [c * k for c in spec["chunks"]]
    if isinstance(coding, str) and coding.endswith("_multi"):
        spec["split_at"] = rng.choice([0, 1, size // 2, max(size - 1, 0), size])
        if rng.random() < 0.5:
            spec["members"] = rng.choice([3, 3, 4, 5])  # several member/frame ends inside one piece handed to the decoder
    if rng.random() < 0.1:
        spec["ce_upper"] = True
    return spec


def gen_seg(rng, built):
    seg = _gen_seg(rng, built)
    n = len(built["wire"])
    # keep the number of socket reads bounded (harness step cap)
    if seg["mode"] == "fixed" and n / seg["n"] > 6000:
        seg["n"] = max(seg["n"], n // 6000 + 1)
    if seg["mode"] == "rand" and n / (seg["max"] / 2 + 0.5) > 6000:
        seg["max"] = max(seg["max"], 2 * (n // 6000 + 1))
    return seg


def _gen_seg(rng, built):
    c = rng.random()
    if c < 0.25:
        return {"mode": "whole"}
    if c < 0.4:
        return {"mode": "byte"} if len(built["wire"]) < 3000 else {"mode": "fixed", "n": 7}
    if c < 0.55:
        return {"mode": "fixed", "n": rng.choice([2, 3, 7, 64, 1000, 1460])}
    if c < 0.75:
        return {"mode": "rand", "seed": rng.randrange(10000), "max": rng.choice([3, 20, 300, 4000])}
    cuts = set()
    for b in built["boundaries"]:
        if rng.random() < 0.7:
            cuts.add(b + rng.choice([-1, 0, 0, 0, 1]))
    for b in built["inner"]:
        cuts.add(b + rng.choice([0, 0, 1, -1]))
    return {"mode": "cuts", "at": sorted(c for c in cuts if c > 0)}


def gen(rng):
    resp = gen_response(rng)
    built = B.build(resp)
    seg = gen_seg(rng, built)
    decode = rng.random() < 0.85
    prog = []
    for _ in range(rng.choice([0, 0, 1, 1, 2, 3, 6])):
        op = rng.choice(["read", "read", "read1", "read1", "readinto", "read0", "read1_none"])
        prog.append([op, rng.choice(AMTS)])
    fin = rng.choice(FINISHERS)
    if fin == "read_chunked" and resp["framing"] != "chunked":
        fin = "stream"
    if fin == "read_chunked_none" and resp["framing"] != "chunked":
        fin = "stream_none"
    if resp["framing"] == "chunked" and fin in ("stream", "read_chunked", "iter", "stream_none", "read_chunked_none") and any(o[0] != "read0" for o in prog):
        prog = [o for o in prog if o[0] == "read0"]
    if fin == "iter" and not decode:
        fin = "stream"
    if resp["payload"]["size"] > 20000 and fin in ("stream_none", "read_chunked_none") and resp["framing"] == "chunked" and min(resp.get("chunks") or [1]) < 16:
        fin = "stream"  # (one piece per chunk: keep the number of pieces bounded)
    if fin == "data":
        prog = []
    amt = rng.choice(AMTS)
    if resp["payload"]["size"] > 20000:
        amt = max(amt, 1000)  # a read1(1) loop costs one socket read per byte: keep below the harness step cap
    sc = {"property": ID, "response": resp, "seg": seg, "decode": decode, "program": prog, "finisher": fin, "amt": amt}
    if decode and fin not in ("iter", "data", "readinto_loop") and not any(o[0] == "readinto" for o in prog) and rng.random() < 0.2:
        sc["decode_request"] = False  # (iteration, .data and readinto() take no per-call flag: they follow the response's own setting)
    if prog and fin != "data" and decode and rng.random() < 0.2:
        # a second response, on its own connection of the same pool, is read a piece at a time *between* the reads of the first:
        # nothing the two have in common (decoder classes, module state) may carry bytes or state from one to the other
        comp = gen_response(rng)
        if rng.random() < 0.7:
            comp["coding"] = resp["coding"]
            comp.pop("split_at", None)
            if isinstance(comp["coding"], str) and comp["coding"].endswith("_multi"):
                comp["split_at"] = comp["payload"]["size"] // 2
        comp["payload"]["size"] = min(comp["payload"]["size"], 3000)  # keeps the number of socket reads far below the harness step cap
        if "split_at" in comp:
            comp["split_at"] = min(comp["split_at"], comp["payload"]["size"])
        if comp["framing"] == "chunked":
            comp["chunks"] = [rng.choice([3, 16, 100, 1000])]
        sc["companion"] = {"response": comp, "amt": rng.choice([1, 3, 7, 64, 1000])}
    return sc


# ---- exhaustive stratum: every call sequence of length <= 2 (quick) / <= 3 (thorough) over the statement's alphabet
#      {read(n), read1(n), readinto(n) for n in 1,2,3,7,64,1000; read(0); read1()} on every small-response configuration
ENUM_AMTS = [1, 2, 3, 7, 64, 1000]
ENUM_OPS = [[op, a] for op in ("read", "read1", "readinto") for a in ENUM_AMTS] + [["read0", 0], ["read1_none", 0]]
ENUM_LEN = {"quick": 2, "thorough": 3}
ENUM_CONFIGS = [(size, coding, framing, seg) for size in (0, 1, 2, 5, 70) for coding in B.CODINGS for framing in ("cl", "chunked", "close") for seg in ("whole", "byte")]


def enum_programs(L):
    import itertools

    for n in range(0, L + 1):
        for t in itertools.product(range(len(ENUM_OPS)), repeat=n):
            yield [list(ENUM_OPS[i]) for i in t]


def cases(seed, k, tier):
    if k < len(ENUM_CONFIGS):
        size, coding, framing, seg = ENUM_CONFIGS[k]
        resp = {"payload": {"size": size, "kind": "compressible", "seed": k}, "coding": coding, "framing": framing}
        if framing == "chunked":
            resp["chunks"] = [3]
        if coding.endswith("_multi"):
            resp["split_at"] = size // 2
        for prog in enum_programs(ENUM_LEN.get(tier, 2)):
            yield {"property": ID, "response": resp, "seg": {"mode": seg}, "decode": True, "program": prog, "finisher": "read_all", "amt": 1000, "enum": True}
    yield gen(rng_for(seed, ID, k))


def execute(sc, res: Result, w, built, second_request=False):
    """Run the read program; returns (pieces, error or None, response)."""
    urllib3 = H.u3()
    d = sc["decode"]
    pieces = []
    short = {"seen": None}
    err = None

    def emit(piece, how, want=None):
        if piece is None:
            piece = b""
        if short["seen"] is not None and piece:
            res.bad("short_read_before_end", f"{short['seen']} returned fewer bytes than asked although {len(piece)} more bytes followed ({how})")
        if want is not None and want > 0:
            if len(piece) > want:
                res.bad("read_returned_too_much", f"{how} returned {len(piece)} bytes")
            elif len(piece) < want:
                short["seen"] = f"{how}"
        pieces.append(piece)
        return piece

    pool = urllib3.HTTPConnectionPool("h.test", 80, timeout=5.0, retries=False)
    r = None
    try:
        if sc["finisher"] == "data":
            r = pool.urlopen("GET", "/x", preload_content=True, decode_content=d)
            res.probes["preload"] += 1
            emit(r.data, "data")
            return pieces, None, r, pool
        # ("decode_request": the response is created with decode_content=False and every call asks for decoding itself)
        r = pool.urlopen("GET", "/x", preload_content=False, decode_content=sc.get("decode_request", d))
        comp = sc.get("companion")
        r2 = None
        cbuf = bytearray()
        cerr = [None]
        if comp:
            r2 = pool.urlopen("GET", "/y", preload_content=False, decode_content=True)

        def companion_step(final=False):
            if r2 is None or cerr[0] is not None:
                return
            try:
                cbuf.extend(r2.read(decode_content=True) if final else r2.read(comp["amt"], decode_content=True))
            except Exception as e2:
                H.strip_tb(e2)
                cerr[0] = e2
            res.info["companion"] = (bytes(cbuf), cerr[0])

        for op, n in sc["program"]:
            companion_step()
            if op == "read":
                emit(r.read(n, decode_content=d), f"read({n})", n)
            elif op == "read1":
                p = r.read1(n, decode_content=d)
                if len(p) > n:
                    res.bad("read_returned_too_much", f"read1({n}) returned {len(p)} bytes")
                emit(p, f"read1({n})")
            elif op == "read1_none":
                emit(r.read1(decode_content=d), "read1()")
            elif op == "readinto":
                buf = bytearray(n)
                k = r.readinto(buf)
                emit(bytes(buf[:k]), f"readinto({n})", n)
            elif op == "read0":
                p = r.read(0, decode_content=d)
                if p:
                    res.bad("read0_returned_bytes", repr(p[:20]))
        fin, amt = sc["finisher"], sc["amt"]
        res.probes["finisher:" + fin] += 1
        guard = 0
        if fin == "read_all":
            emit(r.read(decode_content=d), "read()")
        elif fin == "read_n_loop":
            while True:
                p = emit(r.read(amt, decode_content=d), f"read({amt})", amt)
                guard += 1
                if not p or guard > 400000:
                    break
        elif fin == "read1_loop":
            while True:
                p = emit(r.read1(amt, decode_content=d), f"read1({amt})")
                guard += 1
                if not p or guard > 400000:
                    break
        elif fin == "read1_none_loop":
            while True:
                p = emit(r.read1(decode_content=d), "read1()")
                guard += 1
                if not p or guard > 400000:
                    break
        elif fin == "readinto_loop":
            while True:
                buf = bytearray(amt)
                k = r.readinto(buf)
                p = emit(bytes(buf[:k]), f"readinto({amt})", amt)
                guard += 1
                if not p or guard > 400000:
                    break
        elif fin == "stream":
            for p in r.stream(amt, decode_content=d):
                if not p:
                    res.bad("stream_yielded_empty", f"stream({amt})")
                emit(p, "stream")
        elif fin == "stream_none":
            # without an amount: whatever piece sizes the library chooses, non-empty pieces, the same bytes
            for p in r.stream(None, decode_content=d):
                if not p:
                    res.bad("stream_yielded_empty", "stream(None)")
                emit(p, "stream(None)")
        elif fin == "read_chunked_none":
            for p in r.read_chunked(None, decode_content=d):
                if not p:
                    res.bad("stream_yielded_empty", "read_chunked(None)")
                emit(p, "read_chunked(None)")
        elif fin == "read_neg":
            emit(r.read(-1, decode_content=d), "read(-1)")  # a negative amount means "everything"
        elif fin == "read_chunked":
            for p in r.read_chunked(amt, decode_content=d):
                if not p:
                    res.bad("stream_yielded_empty", f"read_chunked({amt})")
                emit(p, "read_chunked")
        elif fin == "iter":
            for p in r:
                emit(p, "iter")
        res.info["finished_normally"] = True  # the finisher itself signalled a normal end of body
        # reads after the end
        for how, fn in (("read(5)", lambda: r.read(5, decode_content=d)), ("read()", lambda: r.read(decode_content=d)), ("read1(3)", lambda: r.read1(3, decode_content=d))):
            p = fn()
            if p:
                res.bad("read_after_end_returned_bytes", f"{how} -> {p[:20]!r}")
    except (W.SimHang, W.StepLimit) as e:
        err = e
    except Exception as e:
        H.strip_tb(e)
        err = e
    try:
        companion_step(final=True)
    except NameError:
        pass
    except (W.SimHang, W.StepLimit):
        res.info["companion"] = None  # harness limit reached while finishing the companion: no verdict on it
    return pieces, err, r, pool


def run(sc: dict) -> Result:
    res = Result()
    built = B.build(sc["response"])
    resp = sc["response"]
    w = W.World({"seg": sc["seg"]})
    w.default_listener = H.origin_factory()
    end = "eof" if resp["framing"] == "close" else "keep"
    built2 = B.build(sc["companion"]["response"]) if sc.get("companion") else None
    end2 = ("eof" if sc["companion"]["response"]["framing"] == "close" else "keep") if built2 else None
    w.responder = lambda world, peer, req: ({"k": "raw", "bytes": built2["wire"], "end": end2} if (built2 and req.target == "/y") else {"k": "raw", "bytes": built["wire"], "end": end})
    with H.RunEnv(), H.quiet_warnings(), w:
        pieces, err, r, pool = execute(sc, res, w, built)
        if built2 is not None:
            cgot, cerr = res.info.pop("companion", None) or (None, None)
            if cgot is None:
                res.probes["companion_no_verdict"] += 1
            elif cerr is not None:
                res.bad(f"companion_read_raised:{type(cerr).__name__}", f"the response read in between raised {cerr!r:.160} after {len(cgot)} of {len(built2['decoded'])} bytes")
            elif cgot != built2["decoded"]:
                res.bad("companion_bytes_wrong", f"the response read in between delivered {len(cgot)} bytes, its payload has {len(built2['decoded'])}")
            else:
                res.probes["companion_interleaved"] += 1
        want = built["decoded"] if sc["decode"] else built["raw"]
        got = b"".join(pieces)
        if err is not None:
            if isinstance(err, (W.SimHang, W.StepLimit)):
                res.bad("hang", str(err))
            else:
                res.bad(f"read_raised:{type(err).__name__}", f"{err!r:.200} after {len(got)} of {len(want)} bytes")
        elif got != want:
            # locate the first difference
            i = next((j for j in range(min(len(got), len(want))) if got[j] != want[j]), min(len(got), len(want)))
            kind = "lost" if len(got) < len(want) else ("duplicated_or_extra" if len(got) > len(want) else "altered")
            res.bad("bytes_" + kind, f"got {len(got)} bytes, payload has {len(want)}; first difference at {i}; program {sc['program']} finisher {sc['finisher']}")
        elif any(len(p) < n for p, n in []):
            pass
        stack = built["stack"]
        res.probes["coding:" + (stack[0] if len(stack) == 1 else "stack")] += 1
        res.probes["framing:" + resp["framing"]] += 1
        if sc.get("enum"):
            res.probes["enumerated_program"] += 1
        res.probes["seg:" + sc["seg"]["mode"]] += 1
        if not sc["decode"]:
            res.probes["decode_off"] += 1
        if len(built["wire"]) > 66000:
            res.probes["big_body"] += 1
        if not res.violations and any(True for _ in [0]) and pieces and len(pieces) > 1:
            res.probes["short_read_at_end"] += 1
        try:
            pool.close()
        except Exception:
            pass
        r = pool = None
        res.digest = w.digest()
        res.trace = hash((repr(resp), repr(sc["seg"]), sc["decode"], repr(sc["program"]), sc["finisher"], sc["amt"]))
        res.nontrivial = len(want) > 0
        res.sim_s = w.now - W.VClock.START
        res.steps = w.io_step
    return res


def shrinks(sc):
    for i in range(len(sc["program"])):
        c = copy.deepcopy(sc)
        del c["program"][i]
        yield c
    if sc["seg"].get("mode") != "whole":
        c = copy.deepcopy(sc)
        c["seg"] = {"mode": "whole"}
        yield c
    if sc["seg"].get("mode") == "cuts":
        at = sc["seg"]["at"]
        for i in range(len(at)):
            c = copy.deepcopy(sc)
            del c["seg"]["at"][i]
            yield c
    r = sc["response"]
    for n in (0, 1, 3, 10, 100, 1000, 5000):
        if n < r["payload"]["size"]:
            c = copy.deepcopy(sc)
            c["response"]["payload"]["size"] = n
            yield c
    if r["framing"] != "cl":
        c = copy.deepcopy(sc)
        c["response"]["framing"] = "cl"
        c["response"].pop("chunks", None)
        if c["finisher"] == "read_chunked":
            c["finisher"] = "stream"
        if c["finisher"] == "read_chunked_none":
            c["finisher"] = "stream_none"
        yield c
    if isinstance(r["coding"], list):
        for x in r["coding"]:
            c = copy.deepcopy(sc)
            c["response"]["coding"] = x
            yield c
    elif r["coding"] != "identity":
        c = copy.deepcopy(sc)
        c["response"]["coding"] = "identity"
        yield c
    if r["payload"].get("kind") != "compressible":
        c = copy.deepcopy(sc)
        c["response"]["payload"]["kind"] = "compressible"
        yield c
    if sc["finisher"] not in ("read_all", "read_n_loop"):
        for f in ("read_all", "read_n_loop"):
            c = copy.deepcopy(sc)
            c["finisher"] = f
            yield c
    for a in (1, 3, 64):
        if a < sc["amt"]:
            c = copy.deepcopy(sc)
            c["amt"] = a
            yield c
    for i, (op, n) in enumerate(sc["program"]):
        for a in (1, 3, 64):
            if a < n:
                c = copy.deepcopy(sc)
                c["program"][i][1] = a
                yield c
    if "decode_request" in sc:
        c = copy.deepcopy(sc)
        del c["decode_request"]
        yield c
    for fld in ("chunk_ext", "ce_upper", "split_at", "members", "chunk_hex_upper"):
        if fld in r:
            c = copy.deepcopy(sc)
            del c["response"][fld]
            yield c
    if r.get("chunks") and len(r["chunks"]) > 1:
        c = copy.deepcopy(sc)
        c["response"]["chunks"] = r["chunks"][:1]
        yield c


KNOWN = {}
