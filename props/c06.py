"""C06 -- credentials are never forwarded to a different origin on redirect.
Engine: simnet (same simulated web as C05; the oracle reads the per-origin logs)."""
from __future__ import annotations

import copy

from props import _redir as R
from props import c05
from simkit import harness as H
from simkit import world as W
from simkit.runner import Result, rng_for

ID = "C06"
ENGINE = "simnet"
LEVEL = "exploration"
TECHNIQUE = "deterministic network simulation of cross-origin redirect chains; per-origin request logs checked for sensitive headers after the first origin change"
LEVEL_TEXT = (
    "Seeded chains over origins that differ in host, port, scheme or only in letter case / explicit default port, with sensitive header names in every casing carried by dict, "
    "HTTPHeaderDict (repeated fields) or manager defaults and default or custom removal sets; an observer at each simulated origin records what arrived. Sampling."
)
LEVEL_NOTE = "trusted: my origin normalisation (scheme, lower-cased host, default port) and the simulated origins' header parsing"
N = {"quick": 50000, "thorough": 700000}
BUDGET = {"quick": 45, "thorough": 420}
RULE = (
    "index k -> (chain of 1-5 hops with a forced share of cross-origin and same-origin-variant hops, header set, container, removal set, entry point). Non-trivial = at least one "
    "redirect followed; distinct = distinct (abstract trace, header names, container, Location strings)."
)
ASSUMPTIONS = ["header presence is judged on the bytes parsed by the simulated origin/proxy", "origin = (scheme, lower-cased host, port with default filled in)"]
REQUIRED_PROBES = {
    "quick": ["stripped_after_cross_origin", "kept_on_same_origin_variant", "custom_set", "container:hhd", "container:manager_default", "host_changed", "followed", "fault_then_retry", "second_request_same_manager"],
    "thorough": ["stripped_after_cross_origin", "kept_on_same_origin_variant", "custom_set", "container:hhd", "container:manager_default", "host_changed", "followed", "https_hop", "fault_then_retry", "second_request_same_manager"],
}

SENSITIVE_SPELLINGS = ["Authorization", "AUTHORIZATION", "authorization", "aUtHoRiZaTiOn", "Cookie", "cookie", "COOKIE", "Proxy-Authorization", "proxy-authorization", "PROXY-AUTHORIZATION"]
OTHER = [["X-Keep", "k1"], ["Accept", "text/x"], ["X-Api-Key", "secret2"], ["x-trace", "t"]]


def variant_of(origin: str, rng) -> str:
    """Another spelling of the same origin."""
    s, rest = origin.split("://")
    host, _, port = rest.partition(":")
    c = rng.random()
    if c < 0.35:
        host = host.upper()
    elif c < 0.5:
        host = host.capitalize()
    if rng.random() < 0.3:
        s = s.upper()
    if not port and rng.random() < 0.5:
        port = str(R.DEFAULT_PORT[s.lower()])
    return f"{s}://{host}" + (f":{port}" if port else "")


def gen(rng, tier):
    entry = rng.choice(["pm", "pm", "pm", "proxy", "pool"])
    origins = ["http://a.test", "http://b.test", "http://a.test:8080"]
    if entry == "pm" and (rng.random() < (0.3 if tier == "thorough" else 0.05)):
        origins += ["https://a.test", "https://b.test"]
    start = rng.choice(origins[:2]) + "/s"
    method = rng.choice(["GET", "GET", "POST"])
    hdrs = []
    for name in rng.sample(SENSITIVE_SPELLINGS, rng.choice([1, 1, 2, 3])):
        hdrs.append([name, "secret-" + name.lower()[:4]])
    for h in rng.sample(OTHER, rng.choice([0, 1, 2])):
        hdrs.append(list(h))
    rng.shuffle(hdrs)
    cont = rng.choice(["dict", "dict", "hhd", "manager_default"])
    if cont == "dict":
        # a dict cannot hold the same key twice; different casings are different keys
        seen = set()
        hdrs = [h for h in hdrs if not (h[0] in seen or seen.add(h[0]))]
    elif cont == "hhd" and rng.random() < 0.5:
        hdrs.append(["X-Multi", "m1"])
        hdrs.append(["X-Multi", "m2"])
        if rng.random() < 0.5:
            hdrs.append(["Cookie", "second=1"])
    if entry == "pool" and cont == "manager_default":
        cont = "dict"
    cfg = {"entry": entry, "start": start, "method": method, "headers": hdrs, "hdr_container": cont, "placement": rng.choice(["request", "ctor"])}
    if method == "POST":
        cfg["body"] = {"kind": "bytes", "size": 7}
        hdrs.append(["Content-Type", "text/x-test"])
    c = rng.random()
    if c < 0.3:
        cfg["policy"] = {"total": 6, "remove_headers_on_redirect": rng.choice([["X-Api-Key"], ["x-api-key", "Authorization"], [], ["X-TRACE"]])}
    elif c < 0.45:
        cfg["policy"] = {"redirect": 5}
    elif c < 0.55:
        cfg["policy"] = 5
    else:
        cfg["policy"] = "unset"
        if rng.random() < 0.3:
            cfg["placement"] = "request"
    if entry in ("pm", "proxy") and rng.random() < 0.25:
        cfg["call"] = "urlopen"
    web = {}
    cur = start
    L = rng.choice([1, 2, 2, 3, 4, 5])
    for i in range(L):
        node = R.node_of(cur)
        if node in web:
            break
        here = R.origin_of(cur)
        kind = rng.choice(["cross", "cross", "variant", "same_path", "rel", "back", "netpath"])
        path = rng.choice(["/p1", "/d/p2", "/p3?x=1"])
        if kind == "netpath" and entry != "pool":
            # network-path reference: keeps the scheme, names another authority (it begins with a slash and is no path)
            same_scheme = [o for o in origins if o != here and o.split("://")[0] == here.split("://")[0]]
            loc = ("//" + rng.choice(same_scheme).split("://")[1] + path) if same_scheme else path
        elif kind == "netpath":
            loc = path
        elif kind == "cross":
            loc = rng.choice([o for o in origins if o != here]) + path
        elif kind == "variant":
            loc = variant_of(here, rng) + path
        elif kind == "same_path":
            loc = path
        elif kind == "rel":
            loc = rng.choice(["r1", "../r2", "?q=2"])
        else:
            loc = R.origin_of(start) + "/back" + str(i)
        if entry == "pool" and kind == "rel":
            loc = path
        web[node] = {"status": rng.choice([301, 302, 303, 307, 308]), "location": loc}
        cur = R.resolve(cur, loc)
    sc = {"property": ID, "config": cfg, "web": web}
    if rng.random() < 0.2 and method == "GET":
        # fault stratum (as in C05): a node loses the connection on its first visit, so the pool's own error retry and the
        # manager's redirect handling (where the headers are stripped) meet in one request
        nodes = list(web) + [R.node_of(cur)]
        sc["faults"] = {n: {"n": 1, "kind": rng.choice(["eof", "eof", "rst"])} for n in rng.sample(nodes, 1)}
    return sc


def gen_sequence(rng):
    """Two requests through one manager: the first stays on its origin, the second starts on a sibling origin (same host name,
    other port or scheme) and is redirected to the very same absolute URL -- for it a cross-origin hop."""
    entry = rng.choice(["pm", "pm", "proxy"])
    a, b = rng.choice([("http://a.test", "http://a.test:8080"), ("http://a.test:8080", "http://a.test")])
    if rng.random() < 0.5:
        a, b = b, a  # (then the first request is the cross-origin one)
    target = rng.choice([a, a, b]) + rng.choice(["/same1", "/d/same2?x=1"])
    hdrs = [[n, "secret-" + n.lower()[:4]] for n in rng.sample(SENSITIVE_SPELLINGS, rng.choice([1, 2]))] + [list(h) for h in rng.sample(OTHER, rng.choice([0, 1]))]
    seen = set()
    hdrs = [h for h in hdrs if not (h[0] in seen or seen.add(h[0]))]
    st = rng.choice([301, 302, 307, 308])
    cfg = {"entry": entry, "start": a + "/s", "then": {"start": b + "/s"}, "method": "GET", "headers": hdrs, "hdr_container": rng.choice(["dict", "hhd", "manager_default"]), "placement": "request", "policy": rng.choice(["unset", 5, {"redirect": 5}])}
    web = {R.node_of(a + "/s"): {"status": st, "location": target}, R.node_of(b + "/s"): {"status": st, "location": target}}
    return {"property": ID, "config": cfg, "web": web}


def cases(seed, k, tier):
    rng = rng_for(seed, ID, k)
    yield gen_sequence(rng) if k % 10 == 9 else gen(rng, tier)


def run(sc: dict) -> Result:
    res = Result()
    cfg = sc["config"]
    with H.RunEnv(), H.quiet_warnings():
        w, outcome, log = R.run_web(sc)
        split = w.tags.get("split")
        log2 = []
        if split is not None:
            log, log2 = log[:split], log[split:]
            res.probes["second_request_same_manager"] += 1
        answers = c05.check_common(sc, w, outcome, log, res)
        # C06 is about headers; C05's own classes are kept only when they mean a wrong host was contacted
        res.violations = [v for v in res.violations if v[0] in ("other_host_contacted", "wrong_origin", "no_termination")]
        rm = R.removal_set(cfg.get("policy"))
        if cfg.get("policy") and isinstance(cfg["policy"], dict) and "remove_headers_on_redirect" in cfg["policy"]:
            res.probes["custom_set"] += 1
        res.probes["container:" + cfg["hdr_container"]] += 1
        supplied = [(k, v) for k, v in cfg["headers"]]
        failed = w.tags.get("failed_idx") or set()
        if failed:
            res.probes["fault_then_retry"] += 1
            log = [x for i, x in enumerate(log) if i not in failed]  # (the answers list is aligned with the answered attempts)
        if cfg["entry"] in ("pm", "proxy") and log2:
            # the second request's chain, judged on its own: everything after its first cross-origin hop is stripped
            crossed2 = False
            for i, (origin, req) in enumerate(log2):
                if i > 0 and origin != log2[i - 1][0]:
                    crossed2 = True
                if crossed2:
                    leaked = [k for k, _ in req.headers if k.lower() in rm and any(k2.lower() == k.lower() for k2, _ in supplied)]
                    if leaked:
                        res.bad("credential_leak", f"second request through the same manager: hop {i} to {origin} carries {leaked} after the chain left {log2[0][0]}")
                        break
                    res.probes["stripped_after_cross_origin"] += 1
        if cfg["entry"] in ("pm", "proxy"):
            crossed = False
            content_dropped = False
            for i, (origin, req) in enumerate(log):
                if i > 0:
                    if origin != log[i - 1][0]:
                        crossed = True
                    if answers and answers[i - 1][0] == 303:
                        content_dropped = True
                names = [k.lower() for k, _ in req.headers]
                if crossed:
                    leaked = [k for k, _ in req.headers if k.lower() in rm and any(k2.lower() == k.lower() for k2, _ in supplied)]
                    if leaked:
                        res.bad("credential_leak", f"hop {i} to {origin} carries {leaked} after the chain left {log[0][0]} (removal set {sorted(rm)})")
                        break
                    res.probes["stripped_after_cross_origin"] += 1
                for k, v in supplied:
                    kl = k.lower()
                    if kl in rm:
                        continue  # the statement promises preservation only for headers outside the removal set
                    if content_dropped and kl in R.CONTENT_HEADERS:
                        continue
                    if cfg["entry"] == "proxy" and kl in ("accept", "host"):
                        continue  # the forwarding path sets its own Accept/Host defaults
                    got = [v2 for k2, v2 in req.headers if k2.lower() == kl]
                    if cfg["hdr_container"] == "dict":
                        # every spelling is its own dict key: all of them are sent
                        want_vals = [v]
                    else:
                        want_vals = [v]
                    if not any(v in g for g in got for v in want_vals):
                        res.bad("innocent_header_dropped", f"hop {i} to {origin}: caller's {k}: {v} is missing (crossed={crossed}); got {req.headers}")
                        break
                if not crossed and i > 0 and "://" in (answers[i - 1][1] or ""):
                    if any(k.lower() in rm and any(k2.lower() == k.lower() for k2, _ in req.headers) for k, _ in supplied):
                        res.probes["kept_on_same_origin_variant"] += 1
        else:
            start_origin = R.origin_of(cfg["start"])
            for origin, req in log:
                if origin != start_origin:
                    res.bad("other_host_contacted", f"bare pool for {start_origin} contacted {origin}")
        res.faults.update(w.faults_fired)
        res.digest = w.digest()
        res.trace = hash((w.abstract_trace(), tuple(k for k, _ in supplied), cfg["hdr_container"], tuple((e.get("location") or "") for e in sc["web"].values())))
        res.nontrivial = len(log) >= 2
        res.sim_s = w.now - W.VClock.START
        res.steps = w.io_step
        outcome = None
    return res


def shrinks(sc):
    yield from R.shrink_web(sc)
    pol = sc["config"].get("policy")
    if isinstance(pol, dict) and "remove_headers_on_redirect" in pol:
        c = copy.deepcopy(sc)
        del c["config"]["policy"]["remove_headers_on_redirect"]
        yield c


KNOWN = {}
