"""C10 -- no input can inject into or split the HTTP request on the wire.
Engine: simnet; the oracle is the strict/paranoid parser in simkit.httpwire applied
to the bytes the simulated socket recorded, plus "zero bytes written before a
failure" (the I/O-ordering clause)."""
from __future__ import annotations

import copy

from simkit import harness as H
from simkit import httpwire as HW
from simkit import peers as P
from simkit import tls as T
from simkit import world as W
from simkit.runner import Result, rng_for

ID = "C10"
ENGINE = "simnet"
LEVEL = "exploration"
TECHNIQUE = "deterministic network simulation: hostile method/URL/header/body strings through three entry points and HTTP/2; recorded socket bytes re-parsed by an independent paranoid parser"
LEVEL_TEXT = (
    "Seeded hostile strings (CR, LF, CRLF, NUL, DEL, SP, HTAB, ':', non-ASCII, percent forms, embedded complete requests) at every position of method, URL, header names/values "
    "and bodies via HTTPConnection.request, HTTPConnectionPool.urlopen, PoolManager.request and HTTP2Connection; the simulated socket records every byte and the instant of "
    "the failure, an independent line-structure parser (CR, LF and CRLF all end a line) and a server-side h2 decoder judge what was written. Sampling."
)
LEVEL_NOTE = "trusted: simkit.httpwire (paranoid RFC 9112 line structure, RFC 3986 reference target encoding); automatic fields allowed are Host, Accept-Encoding, User-Agent and one framing field"
N = {"quick": 40000, "thorough": 600000}
BUDGET = {"quick": 45, "thorough": 420}
RULE = (
    "index k -> (entry point, method, URL, header list, container, body) with 0-3 hostile symbols inserted at seeded positions; k%7==0 uses HTTP/2. Non-trivial = at least one hostile "
    "symbol present; distinct = distinct (entry, inputs) tuple."
)
ASSUMPTIONS = [
    "a field value counts as 'precisely the requested' modulo optional whitespace and folding (obs-fold continuation lines belong to the field they continue)",
    "a URL component mixing valid %XX escapes with stray '%' may be encoded either way (keep valid escapes / encode every '%')",
]
REQUIRED_PROBES = {
    "quick": ["rejected_zero_bytes", "accepted_exact", "entry:conn", "entry:pool", "entry:pm", "entry:h2", "h2_rejected", "h2_accepted", "obs_fold_roundtrip", "target_percent_encoded", "body_checked", "follow_up_clean_after_rejection", "follow_up_clean", "warm_connection_in_pool", "early_answer_then_follow_up", "headers_object_reused", "json_body_checked"],
    "thorough": ["rejected_zero_bytes", "accepted_exact", "entry:conn", "entry:pool", "entry:pm", "entry:h2", "h2_rejected", "h2_accepted", "obs_fold_roundtrip", "target_percent_encoded", "body_checked", "follow_up_clean_after_rejection", "follow_up_clean", "warm_connection_in_pool", "early_answer_then_follow_up", "headers_object_reused", "json_body_checked"],
}

HOSTILE = [
    "\r", "\n", "\r\n", "\x00", "\x7f", " ", "\t", ":", "é", "中", "%0d%0a", "%", "%zz", "\r\n\r\nGET /evil HTTP/1.1\r\nHost: evil\r\n\r\n",
    "\r\n ", "\n\t", "\x0b", "\x1f", "\u0080", "#", "?", "\\", "\r\nX-Injected: 1", "\nX-Injected: 1", "\r\n\r\n", "\r ", "%41", "%e4%b8%ad",
]
METHODS = ["GET", "POST", "PUT", "DELETE", "HEAD", "get", "PATCH", "M-SEARCH"]
SKIP = "@@@SKIP_HEADER@@@"


def inject(rng, s: str, n: int) -> str:
    for _ in range(n):
        sym = rng.choice(HOSTILE)
        i = rng.randint(0, len(s))
        s = s[:i] + sym + s[i:]
    return s


def gen(rng, k):
    entry = "h2" if k % 7 == 0 else rng.choice(["conn", "pool", "pm", "conn", "pool", "pm", "proxy"])
    nh = rng.choice([0, 1, 1, 2, 3])
    where = [rng.choice(["method", "url", "hname", "hvalue", "hvalue", "url", "body"]) for _ in range(nh)]
    method = rng.choice(METHODS)
    path = rng.choice(["/", "/a", "/a/b", "/a%20b", "/p?q=1", "/p?q=a%26b&r=2"])
    headers = []
    for i in range(rng.choice([0, 1, 2, 3])):
        name = rng.choice(["X-A", "x-b", "Accept", "X-Long-Name", "Cookie", "Host", "User-Agent", "Accept-Encoding", "Content-Type", "Host", "User-Agent", "Accept-Encoding"])
        name = rng.choice([name, name, name.lower(), name.upper(), name.swapcase()])
        val = rng.choice(["v", "some value", "a, b", "text/plain; charset=utf-8", ""])
        if name.lower() == "host" and rng.random() < 0.7:
            val = rng.choice(["h.test", "other.test", "h.test:80"])
        headers.append([name, val])
    if rng.random() < 0.1:
        name = rng.choice(["Host", "Accept-Encoding", "User-Agent"])
        headers.append([rng.choice([name, name.lower(), name.upper()]), SKIP])
    if rng.random() < 0.05:
        headers.append(["X-Other", SKIP])
    body = None
    if rng.random() < 0.4:
        body = rng.choice(["", "x=1", "line1\r\nline2", "GET /smuggled HTTP/1.1\r\nHost: h\r\n\r\n", "é中"])
    for w_ in where:
        if w_ == "method":
            method = inject(rng, method, 1)
        elif w_ == "url":
            path = inject(rng, path, 1)
            if not path.startswith("/"):
                path = "/" + path
        elif w_ in ("hname", "hvalue"):
            if not headers:
                headers.append(["X-A", "v"])
            j = rng.randrange(len(headers))
            if headers[j][1] == SKIP:
                continue
            headers[j][0 if w_ == "hname" else 1] = inject(rng, headers[j][0 if w_ == "hname" else 1], 1)
        else:
            body = inject(rng, body or "b", 1)
    cont = rng.choice(["dict", "dict", "hhd"])
    if entry in ("conn", "pool") and rng.random() < 0.12:
        cont = "dict_bytes"  # a plain mapping whose field names are bytes (http.client takes them; the automatic-header logic must too)
    body_kind = "str"
    if body is not None and entry != "h2":
        c_ = rng.random()
        if c_ < 0.12:
            # the caller frames the message itself: its line is the only framing line there may be
            try:
                headers.append([rng.choice(["Content-Length", "content-length", "CONTENT-LENGTH"]), str(len(body.encode("utf-8")))])
            except UnicodeEncodeError:
                pass
        elif c_ < 0.18:
            headers.append([rng.choice(["Transfer-Encoding", "transfer-encoding"]), "chunked"])
        # the same characters handed over in other shapes: bytes, or pieces (empty ones included, as str or bytes)
        body_kind = rng.choice(["str", "str", "str", "bytes", "iter_str", "iter_mixed"])
    if entry == "proxy":
        # (a name both given a value and suppressed is contradictory input; through a ProxyManager the two would be combined into
        #  one field before the pool sees the suppression marker -- not a case the statement speaks about)
        valued = {h[0].lower() for h in headers if h[1] != SKIP}
        headers = [h for h in headers if not (h[1] == SKIP and h[0].lower() in valued)]
    if cont in ("dict", "dict_bytes"):
        seen = set()
        headers = [h for h in headers if not (h[0] in seen or seen.add(h[0]))]
    if cont == "dict_bytes":
        headers = [h for h in headers if all(ord(ch) < 256 for ch in h[0])]
    sc = {"property": ID, "entry": entry, "method": method, "path": path, "headers": headers, "container": cont, "body": body, "hostile": nh}
    if not headers and entry != "h2" and rng.random() < 0.5:
        sc["no_headers_arg"] = True  # headers=None rather than an empty mapping
    if body_kind != "str":
        sc["body_kind"] = body_kind
        sc["body_cuts"] = sorted(rng.randrange(0, len(body) + 1) for _ in range(rng.choice([1, 2, 3])))
    if entry in ("h2", "pool", "pm", "proxy"):
        sc["second"] = rng.random() < 0.5
    if entry in ("pool", "pm") and rng.random() < 0.3:
        sc["warm"] = True
        sc["second"] = True
    if entry in ("pool", "pm") and nh == 0 and rng.random() < 0.06:
        # a JSON request (the library adds Content-Type itself) made with a headers object that the caller then uses again for an
        # ordinary request: the second request must carry the caller's lines, not what the library added for the first
        sc["json"] = {"a": 1, "k": "\u00e9"}
        if rng.random() < 0.4:
            sc["fields"] = True  # the same idea with fields= (the library generates a multipart Content-Type)
        sc["method"], sc["body"] = "POST", None
        sc["headers"] = [h for h in sc["headers"] if h[1] != SKIP and h[0].lower() not in ("content-type", "content-length", "transfer-encoding", "host")]
        sc["container"] = rng.choice(["hhd", "hhd", "dict"])
        if sc["container"] == "dict":
            seen_ = set()
            sc["headers"] = [h for h in sc["headers"] if not (h[0] in seen_ or seen_.add(h[0]))]  # a dict holds each key once
        sc["second"] = True
        sc["reuse_headers"] = True
        sc["warm"] = False
        return sc
    if entry in ("pool", "pm") and nh == 0 and rng.random() < 0.08:
        # a large upload to a server that answers as soon as it has the header block and stops reading; the body write is cut short
        # by a send time-out (or a reset) half way.  Whatever follows on that pool must start at a message boundary.
        sc["method"], sc["body"] = "POST", "u" * 20000
        sc["headers"] = [h for h in sc["headers"] if h[0].lower() not in ("content-length", "transfer-encoding", "host")]
        sc["early"] = {"status": 413, "send_fault": rng.choice(["timeout", "timeout", "reset", "epipe"])}
        sc["second"] = True
        sc["warm"] = False
    return sc


def cases(seed, k, tier):
    yield gen(rng_for(seed, ID, k), k)


def _mk_headers(sc):
    if sc["container"] == "hhd":
        from urllib3._collections import HTTPHeaderDict

        h = HTTPHeaderDict()
        for k, v in sc["headers"]:
            h.add(k, v)
        return h
    if sc["container"] == "dict_bytes":
        return {k.encode("latin-1"): v for k, v in sc["headers"]}
    return {k: v for k, v in sc["headers"]}


def _mk_body(sc):
    body, kind = sc["body"], sc.get("body_kind", "str")
    if body is None or kind == "str":
        return body
    if kind == "bytes":
        return body.encode("utf-8", "surrogatepass")
    cuts = [0] + [min(c, len(body)) for c in sc.get("body_cuts") or []] + [len(body)]
    pieces = [body[a:b] for a, b in zip(cuts, cuts[1:])]  # equal cut points give empty pieces
    if kind == "iter_mixed":
        pieces = [p_.encode("utf-8", "surrogatepass") if i % 2 else p_ for i, p_ in enumerate(pieces)]
    return iter(pieces)


def _latin(s: str):
    try:
        return s.encode("latin-1")
    except UnicodeEncodeError:
        return None


def run(sc: dict) -> Result:
    res = Result()
    entry = sc["entry"]
    res.probes["entry:" + entry] += 1
    if entry == "h2":
        return run_h2(sc, res)
    urllib3 = H.u3()
    wsc = {}
    if sc.get("early"):
        # I/O steps of the call: connect, send(header block), send(body): the third is cut after half of its bytes
        wsc = {"early": sc["early"], "step_faults": [{"at": 2, "kind": sc["early"]["send_fault"], "after": "half"}]}
    w = W.World(wsc)
    w.default_listener = H.origin_factory()
    hdrs = _mk_headers(sc)
    if sc.get("no_headers_arg") and not sc["headers"] and not sc.get("reuse_headers"):
        hdrs = None
    body = _mk_body(sc)
    method, path = sc["method"], sc["path"]
    holder = {"obj": None}
    with H.RunEnv(), H.quiet_warnings(), w:
        err = None
        mark0 = {}
        warm = bool(sc.get("warm")) and entry in ("pool", "pm")
        if warm:
            # an earlier, ordinary request leaves an established keep-alive connection in the pool; the server will close it
            # while idle (after the call under test)
            w.exchanges.append({"k": "resp", "status": 200, "body": "warm", "end": "idle_close", "close_delay": 1.0})
            try:
                if entry == "pool":
                    holder["obj"] = urllib3.HTTPConnectionPool("h.test", 80, timeout=3.0)
                    holder["obj"].urlopen("GET", "/warm", retries=False)
                else:
                    holder["obj"] = urllib3.PoolManager(timeout=3.0)
                    holder["obj"].request("GET", "http://h.test/warm", retries=False)
                res.probes["warm_connection_in_pool"] += 1
            except Exception as e:
                H.strip_tb(e)
            mark0 = {s_.sid: len(s_.sent) for s_ in w.sockets}
        try:
            if entry == "conn":
                from urllib3.connection import HTTPConnection

                c = HTTPConnection("h.test", 80, timeout=3.0)
                c.request(method, path, body=body, headers=hdrs)
                r = c.getresponse()
                r.read()
                c.close()
            elif entry == "pool":
                p = holder["obj"] = holder["obj"] or urllib3.HTTPConnectionPool("h.test", 80, timeout=3.0)
                if sc.get("json") is not None:
                    p.request(method, path, headers=hdrs, retries=False, **({"fields": {"a": "1", "k": "\u00e9"}, "multipart_boundary": "simb0undary"} if sc.get("fields") else {"json": sc["json"]}))
                else:
                    p.urlopen(method, path, body=body, headers=hdrs, retries=False)
            elif entry == "proxy":
                # a forwarding proxy: the same request in absolute-form, with the manager's own automatic lines (Host, Accept)
                pm = holder["obj"] = urllib3.ProxyManager("http://proxy.test:3128", timeout=3.0)
                pm.request(method, "http://h.test" + path, body=body, headers=hdrs, retries=False)
            else:
                pm = holder["obj"] = holder["obj"] or urllib3.PoolManager(timeout=3.0)
                if sc.get("json") is not None:
                    pm.request(method, "http://h.test" + path, headers=hdrs, retries=False, **({"fields": {"a": "1", "k": "\u00e9"}, "multipart_boundary": "simb0undary"} if sc.get("fields") else {"json": sc["json"]}))
                else:
                    pm.request(method, "http://h.test" + path, body=body, headers=hdrs, retries=False)
        except (W.SimHang, W.StepLimit) as e:
            err = e
            res.bad("hang", str(e))
        except Exception as e:
            err = e
            H.strip_tb(e)
        sent = b"".join(bytes(s.sent[mark0.get(s.sid, 0):]) for s in w.sockets)
        n_socks_written = sum(1 for s in w.sockets if len(s.sent) > mark0.get(s.sid, 0))
        if warm:
            w.advance(2.0)  # the server's idle close arrives: the pooled connection object will be closed and re-opened at checkout
        # ---- a benign follow-up through the same pool / manager: whatever the first call left behind (a half-assembled request
        #      in a recycled connection object, say) must not reach the wire with it
        obj = holder["obj"]
        if obj is not None and sc.get("second") and not isinstance(err, (W.SimHang, W.StepLimit)):
            mark = {s_.sid: len(s_.sent) for s_ in w.sockets}
            err2 = None
            try:
                h2 = {"X-Second": "2"}
                if sc.get("reuse_headers"):
                    h2 = hdrs  # the caller's own headers object, used again
                    h2["X-Second"] = "2"
                if entry == "pool":
                    obj.urlopen("GET", "/follow", headers=h2, retries=False)
                else:
                    obj.request("GET", "http://h.test/follow", headers=h2, retries=False)
            except (W.SimHang, W.StepLimit) as e:
                res.bad("hang", str(e))
                err2 = e
            except Exception as e:
                H.strip_tb(e)
                err2 = e
            delta = b"".join(bytes(s_.sent[mark.get(s_.sid, 0):]) for s_ in w.sockets)
            if sc.get("early") and delta:
                res.probes["early_answer_then_follow_up"] += 1
                # the follow-up must start a message of its own: on the socket that carried it, everything written before it has
                # to be complete requests
                for s_ in w.sockets:
                    before = bytes(s_.sent[: mark.get(s_.sid, 0)])
                    if len(s_.sent) > mark.get(s_.sid, 0) and before:
                        rq0, left0, perr0 = HW.parse_requests(before)
                        if perr0 or left0:
                            res.bad("follow_up_inside_previous_message", f"GET /follow was written onto socket {s_.sid} on which the previous request is incomplete ({len(before)} bytes, {perr0 or 'body short'}): a server reads it as that request's body")
            reqs2, left2, perr2 = HW.parse_requests(delta)
            if perr2 or left2 or len(reqs2) != 1:
                res.bad("follow_up_not_exactly_one_request", f"after {('the rejected' if err is not None else 'the accepted')} call, a plain GET /follow wrote: {delta[:200]!r} ({err2!r:.80})")
            else:
                q2 = reqs2[0]
                names = {n.lower() for n, _ in q2["fields"]}
                own = {b"host", b"accept-encoding", b"user-agent", b"x-second"}
                if sc.get("reuse_headers"):
                    own |= {k_.lower().encode("latin-1", "replace") for k_, v_ in sc["headers"] if v_ != SKIP}
                    res.probes["headers_object_reused"] += 1
                if entry == "proxy":
                    own = own | {b"accept"}
                if q2["method"] != b"GET" or q2["target"] != (b"http://h.test/follow" if entry == "proxy" else b"/follow") or not names <= own or b"x-second" not in names:
                    res.bad("follow_up_carries_foreign_lines", f"GET /follow went out as {q2['method']!r} {q2['target']!r} with fields {q2['fields']!r}")
                else:
                    res.probes["follow_up_clean_after_rejection" if err is not None else "follow_up_clean"] += 1
        try:
            if obj is not None:
                obj.close() if entry == "pool" else obj.clear()
        except Exception:
            pass
        obj = holder["obj"] = None
        if err is not None and not isinstance(err, (W.SimHang, W.StepLimit)):
            reqs, left, perr = HW.parse_requests(sent)
            if sent and sc.get("early") and w.faults_fired:
                # the write was cut short by the injected network fault, not by a refusal of the caller's input
                res.probes["send_cut_by_fault"] += 1
            elif sent:
                # a failure after bytes went out is only acceptable if what went out is exactly the one well-formed request
                # (e.g. the server's answer could not be read); otherwise bytes were written before the input was refused
                if perr or left or len(reqs) != 1:
                    res.bad("bytes_before_failure", f"{type(err).__name__}: {err!s:.80}; {len(sent)} bytes already written: {sent[:120]!r}")
                else:
                    check_request(sc, reqs[0], res, entry)
                    res.probes["failed_after_complete_request"] += 1
            else:
                res.probes["rejected_zero_bytes"] += 1
        elif err is None:
            reqs, left, perr = HW.parse_requests(sent)
            if perr:
                res.bad("malformed_request", f"{perr}; wire={sent[:160]!r}")
            elif len(reqs) != 1 or left or n_socks_written != 1:
                res.bad("request_split", f"{len(reqs)} requests + {len(left)} trailing bytes on {n_socks_written} sockets; wire={sent[:200]!r}")
            else:
                check_request(sc, reqs[0], res, entry)
                if not res.violations:
                    res.probes["accepted_exact"] += 1
        res.faults.update(w.faults_fired)
        res.digest = w.digest()
        res.trace = hash((entry, method, path, tuple(map(tuple, sc["headers"])), sc["container"], body))
        res.nontrivial = sc.get("hostile", 0) > 0
        res.sim_s = w.now - W.VClock.START
        res.steps = w.io_step
    return res


def check_request(sc, req, res, entry):
    method, path = sc["method"], sc["path"]
    want_method = method.upper() if entry in ("pm", "proxy") else method
    if req["method"] != want_method.encode("latin-1", "replace"):
        res.bad("request_line_changed:method", f"sent {req['method']!r}, requested {want_method!r}")
    tgt = req["target"].decode("ascii")
    if entry == "conn":
        ok_targets = {path}
    elif entry == "proxy":
        ok_targets = {"http://h.test" + x for x in HW.ref_targets(path)}
    else:
        ok_targets = HW.ref_targets(path)
    if tgt not in ok_targets:
        res.bad("request_line_changed:target", f"sent {tgt!r}, reference {sorted(ok_targets)!r} for {path!r}")
    elif "%" in tgt and tgt != path:
        res.probes["target_percent_encoded"] += 1
    # ---- header fields: caller's, in order, plus only the permitted automatic ones
    supplied = [(k, v) for k, v in sc["headers"]]
    keys = {k.lower() for k, _ in supplied}
    caller = [(k, v) for k, v in supplied if v != SKIP]
    got = list(req["fields"])
    # same-name fields must arrive in the caller's order; order across different names is not significant
    want_by_name: dict = {}
    for ck, cv in caller:
        ckb, cvb = _latin(ck), _latin(cv)
        if ckb is None or cvb is None:
            res.bad("header_missing_or_altered", f"non-latin-1 field {ck!r}: {cv!r} was accepted; wire fields {got!r}")
            return
        want_by_name.setdefault(ckb.lower(), []).append(HW.unfold(cvb))  # field names are case-insensitive
        if b"\r" in cvb or b"\n" in cvb:
            res.probes["obs_fold_roundtrip"] += 1
    got_by_name: dict = {}
    extras = []
    for name, value in got:
        if name.lower() in want_by_name:
            got_by_name.setdefault(name.lower(), []).append(HW.unfold(value))
        else:
            extras.append((name, value))
    for name, vals in want_by_name.items():
        nosp = lambda b_: b_.replace(b" ", b"").replace(b"\t", b"")  # noqa: E731
        if entry == "proxy" and len(vals) > 1 and len(got_by_name.get(name, [])) == 1 and nosp(got_by_name[name][0]) == b",".join(nosp(v_) for v_ in vals):
            # a ProxyManager hands the pool a plain dict: same-name fields of an HTTPHeaderDict arrive combined into one
            # comma-separated line (RFC 9110 5.3 lets a sender do that); left as "either"
            res.probes["proxy_combined_repeated_field"] += 1
            continue
        if got_by_name.get(name, []) != vals:
            res.bad("header_missing_or_altered", f"caller field {name!r} values {vals!r}, on the wire {got_by_name.get(name)!r}; all wire fields {got!r}")
            return
    allowed = {}
    # automatic lines: the statement fixes *when* they may appear, not what the library puts in Accept-Encoding / User-Agent
    printable = lambda v: bool(v) and all(0x20 <= c < 0x7F for c in v)  # noqa: E731
    if "host" not in keys:
        allowed[b"host"] = lambda v: v in (b"h.test", b"h.test:80")
    if "accept-encoding" not in keys:
        allowed[b"accept-encoding"] = printable
    if "user-agent" not in keys:
        allowed[b"user-agent"] = printable
    if "content-length" not in keys and "transfer-encoding" not in keys:
        allowed[b"content-length"] = lambda v: v.isdigit()
        allowed[b"transfer-encoding"] = lambda v: v == b"chunked"
    if entry == "proxy" and "accept" not in keys:
        allowed[b"accept"] = printable  # (a ProxyManager adds Accept to forwarded requests, like Host only when the caller gave none)
    if sc.get("json") is not None and "content-type" not in keys:
        allowed[b"content-type"] = (lambda v: v.startswith(b"multipart/form-data; boundary=")) if sc.get("fields") else (lambda v: v == b"application/json")
    if entry == "pm" and sc["body"] is None and False:
        pass
    seen = set()
    for name, value in extras:
        ln = name.lower()
        framing = ln in (b"content-length", b"transfer-encoding")
        key = b"framing" if framing else ln
        if ln not in allowed or key in seen or not allowed[ln](value):
            res.bad("header_added", f"unrequested field {name!r}: {value!r} on the wire (caller supplied {supplied!r})")
            return
        seen.add(key)
    # ---- body
    if sc.get("fields"):
        res.probes["fields_body_not_judged"] += 1  # (multipart encoding is another property's business)
    elif sc.get("json") is not None:
        import json as _json

        want = _json.dumps(sc["json"], separators=(",", ":"), ensure_ascii=False).encode("utf-8")
        if req["body"] != want:
            res.bad("body_altered", f"json= sent {req['body'][:80]!r}, reference {want[:80]!r}")
        else:
            res.probes["json_body_checked"] += 1
    elif sc["body"] is not None:
        want = sc["body"].encode("utf-8", "surrogatepass")
        if req["body"] != want:
            res.bad("body_altered", f"sent {req['body'][:80]!r}, requested {want[:80]!r}")
        else:
            res.probes["body_checked"] += 1


def run_h2(sc, res):
    from urllib3.http2.connection import HTTP2Connection

    w = W.World({})
    peers = []

    def factory(world, chan):
        def inner(w_, c):
            p = P.H2Peer(w_, c)
            peers.append(p)
            return p

        return T.TlsPeer(world, chan, inner, cert="any", name="h2origin", alpn=["h2"])

    w.default_listener = factory
    hdrs = _mk_headers(sc)
    method, path, body = sc["method"], sc["path"], sc["body"]
    with H.RunEnv(), H.quiet_warnings(), w:
        conn = HTTP2Connection("origin.test", 443, ca_certs=T.CA_GOOD, timeout=3.0)
        err = None
        plain_before = 0
        try:
            conn.connect()
            plain_before = sum(len(t.plain_in) for t in _tls_peers(w))
            conn.request(method, path, body=body, headers=hdrs)
            r = conn.getresponse()
        except (W.SimHang, W.StepLimit) as e:
            err = e
            res.bad("hang", str(e))
        except Exception as e:
            err = e
            H.strip_tb(e)
        plain_after = sum(len(t.plain_in) for t in _tls_peers(w))
        reqs = [r_ for p in peers for r_ in p.requests]
        hostile_in_headers = any(any(c in (k + v) for c in "\r\n\x00") for k, v in sc["headers"])
        if err is not None and not isinstance(err, (W.SimHang, W.StepLimit)):
            if reqs:
                # failure after the (one) request went out: acceptable only if that request is exactly the requested one
                if len(reqs) != 1:
                    res.bad("h2_frames_before_failure", f"{type(err).__name__}: {err!s:.80}; server decoded {len(reqs)} requests")
                else:
                    check_h2(sc, reqs[0], res)
                    res.probes["h2_failed_after_complete_request"] += 1
            else:
                res.probes["h2_rejected"] += 1
        elif err is None:
            if len(reqs) != 1:
                res.bad("h2_request_count", f"{len(reqs)} requests decoded by the server")
            else:
                check_h2(sc, reqs[0], res)
        if sc.get("second") and not res.violations:
            # a benign follow-up on the same connection object must carry exactly its own fields
            n0 = len(reqs)
            try:
                conn.request("GET", "/second", headers={"x-second": "2"})
                conn.getresponse()
                reqs2 = [r_ for p in peers for r_ in p.requests][n0:]
                if len(reqs2) == 1:
                    names = [k for k, _ in reqs2[0][1]]
                    mine = {b":scheme", b":method", b":authority", b":path", b"x-second", b"user-agent"}
                    if any(n not in mine for n in names) or names.count(b":path") != 1:
                        res.bad("h2_stale_fields", f"follow-up request carries {reqs2[0][1]!r}")
                    else:
                        res.probes["h2_second_clean"] += 1
            except Exception as e:
                H.strip_tb(e)
                res.probes["h2_second_failed"] += 1
        try:
            conn.close()
        except Exception:
            pass
        res.digest = w.digest()
        res.trace = hash(("h2", method, path, tuple(map(tuple, sc["headers"])), body))
        res.nontrivial = sc.get("hostile", 0) > 0
        res.sim_s = w.now - W.VClock.START
        res.steps = w.io_step
    return res


def _tls_peers(w):
    return [s.peer for s in w.sockets if isinstance(s.peer, T.TlsPeer)]


def check_h2(sc, req, res):
    fields = req[1]
    regular = [(k, v) for k, v in fields if not k.startswith(b":")]
    caller = []
    for k, v in sc["headers"]:
        if k.lower() == "transfer-encoding" and v == "chunked":
            continue
        caller.append((k.lower().encode(), v.encode()))
    want: dict = {}
    for ck, cv in caller:
        want.setdefault(ck.strip(), []).append(cv.strip())
    gotb: dict = {}
    extras = []
    for k, v in regular:
        if k in want:
            gotb.setdefault(k, []).append(v.strip())
        else:
            extras.append((k, v))
    exact = {k_.lower().encode() for k_, _ in sc["headers"]}
    if b"user-agent" in want and b"user-agent" not in exact:
        # the caller's name only becomes "user-agent" after h2 trimmed its whitespace: the automatic field is still legitimate
        g = gotb.get(b"user-agent", [])
        if g and len(g) > len(want[b"user-agent"]):
            g.pop()
    for k, vals in want.items():
        if gotb.get(k, []) != vals:
            res.bad("h2_header_missing_or_altered", f"{k!r} requested {vals!r}, server decoded {gotb.get(k)!r}; all {regular!r}")
            return
    for k, v in extras:
        if k != b"user-agent" or any(c[0] == b"user-agent" for c in caller):
            res.bad("h2_header_added", f"unrequested field {k!r}: {v!r}")
            return
    for k, v in regular:
        if any(c in v for c in (b"\r", b"\n", b"\x00")) or any(c in k for c in (b"\r", b"\n", b"\x00", b":", b" ")):
            res.bad("h2_illegal_field_transmitted", f"{k!r}: {v!r}")
            return
    res.probes["h2_accepted"] += 1


def shrinks(sc):
    for i in range(len(sc["headers"])):
        c = copy.deepcopy(sc)
        del c["headers"][i]
        yield c
    if sc["body"] is not None:
        c = copy.deepcopy(sc)
        c["body"] = None
        c["headers"] = [h for h in c["headers"] if h[0].lower() not in ("content-length", "transfer-encoding")]
        c.pop("body_kind", None)
        yield c
    if sc.get("body_kind"):
        c = copy.deepcopy(sc)
        del c["body_kind"]
        yield c
    for fld, simple in (("method", "GET"), ("path", "/"), ("container", "dict")):
        if sc[fld] != simple:
            c = copy.deepcopy(sc)
            c[fld] = simple
            yield c
    if sc.get("warm"):
        c = copy.deepcopy(sc)
        c["warm"] = False
        yield c
    if sc.get("second") and not sc.get("warm"):
        c = copy.deepcopy(sc)
        c["second"] = False
        yield c
    for i, (k, v) in enumerate(sc["headers"]):
        for j, part in ((0, k), (1, v)):
            if len(part) > 1:
                for cut in (part[: len(part) // 2], part[len(part) // 2 :], part[1:], part[:-1]):
                    c = copy.deepcopy(sc)
                    c["headers"][i][j] = cut
                    yield c
    for fld in ("path", "method"):
        part = sc[fld]
        if len(part) > 2:
            for cut in (part[: len(part) // 2 + 1], part[:1] + part[len(part) // 2 :], part[:-1]):
                c = copy.deepcopy(sc)
                c[fld] = cut if fld == "method" or cut.startswith("/") else "/" + cut
                yield c


KNOWN = {}
