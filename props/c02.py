"""C02 -- concurrent requests never share a connection, exceed maxsize, or deadlock.
Engine: simsched (seeded thread interleavings at every line of the pool code) over
simnet (reactive origin echoing the request path)."""
from __future__ import annotations

import copy
import weakref

from simkit import harness as H
from simkit import sched as S
from simkit import world as W
from simkit.runner import Result, rng_for, stable_hash

ID = "C02"
ENGINE = "simsched"
LEVEL = "exploration"
TECHNIQUE = "deterministic thread scheduling (baton-passing real threads, pre-emption at every line of connectionpool/response/connection via sys.monitoring) over the simulated network; seeded uniform and PCT schedules"
LEVEL_TEXT = (
    "2-3 real threads (each 1-2 requests, optionally one calling close(), optionally a failing attempt so the retry path runs concurrently) on one pool with maxsize 1-2, blocking or not; "
    "exactly one thread runs at a time and a seeded scheduler decides at every executed line of the pool code, every queue operation and every socket call who continues "
    "(uniform pre-emption probabilities, PCT priority schedules); blocked get() calls wait on the virtual clock. Oracles: socket used by one request at a time, <= maxsize sockets "
    "on blocking pools, every task finishes with its own echo, close() races end in completion or ClosedPoolError, nothing left open after the pool is dropped and no socket closed only by deallocation. Single and double pre-emptions of sampled small scenarios are enumerated; the rest is sampling of interleavings."
)
LEVEL_NOTE = "trusted: SimLifoQueue semantics (= queue.LifoQueue for the calls made), pre-emption granularity = Python lines of urllib3's own modules + simulated primitives (not inside http.client or C code)"
N = {"quick": 12000, "thorough": 250000}
BUDGET = {"quick": 55, "thorough": 420}
RESAMPLE = 10
RULE = (
    "index k -> (pool config, 2-3 task scripts, optional close(), optional failing first attempt, schedule strategy uniform p in {0.01,0.03,0.1,0.3} or PCT d in {1,2,3}); "
    "k%25==0: systematic stratum -- the scenario is run with no pre-emption to count its scheduling points S, then once per single pre-emption at each point (all points up to a cap) and for sampled pairs. "
    "Non-trivial = at least one pre-emptive context switch landed; distinct = distinct sequence of (task, code location) at context switches."
)
ASSUMPTIONS = ["races inside a single Python line, inside http.client or inside C code are out of reach (one thread runs at a time, switches happen between lines)"]
REQUIRED_PROBES = {"quick": ["preempted", "blocked_in_get", "close_raced", "closed_pool_error", "retry_concurrent", "redirect_concurrent", "partial_read_released", "final_failure_leaves_placeholder", "empty_answer_consumed", "all_completed", "pct_schedule", "systematic_single_preemption"], "thorough": ["preempted", "blocked_in_get", "close_raced", "closed_pool_error", "retry_concurrent", "redirect_concurrent", "partial_read_released", "final_failure_leaves_placeholder", "empty_answer_consumed", "all_completed", "pct_schedule"]}


def warmup():
    """Import lazily loaded modules and instrument the code the scheduler pre-empts."""
    import urllib3
    import urllib3.connection
    import urllib3.connectionpool
    import urllib3.response
    import urllib3.util.connection

    w = W.World({})
    w.default_listener = H.origin_factory()
    with w:
        p = urllib3.HTTPConnectionPool("h.test", 80, maxsize=1)
        p.request("GET", "/warm").data
        r = p.urlopen("GET", "/warm2", preload_content=False)
        r.read()
        r.release_conn()
        p.close()
    S.instrument([urllib3.connectionpool, urllib3.response, urllib3.connection, urllib3.util.connection])


def gen_schedule(rng):
    c = rng.random()
    if c < 0.6:
        return {"strategy": "uniform", "p": rng.choice([0.01, 0.03, 0.1, 0.3]), "seed": rng.randrange(1 << 30)}
    return {"strategy": "pct", "d": rng.choice([1, 2, 3]), "steps": rng.choice([300, 800, 2000]), "seed": rng.randrange(1 << 30)}


def gen(rng):
    maxsize = rng.choice([1, 1, 2])
    cfg = {"maxsize": maxsize, "block": rng.random() < 0.65, "preload": rng.random() < 0.5, "pool_timeout": rng.choice([60, 60, None])}
    if rng.random() < 0.25:
        cfg["retries"] = 0  # a failing attempt is then final: the request ends in an error and leaves a placeholder in the queue
    ntasks = rng.choice([2, 2, 3])
    tasks = []
    for i in range(ntasks):
        ops = [{"op": "request", "path": f"/t{i}-{j}"} for j in range(rng.choice([1, 1, 2]))]
        tasks.append({"name": f"T{i}", "ops": ops})
    if rng.random() < 0.35:
        t = rng.choice(tasks)
        t["ops"].insert(rng.randrange(len(t["ops"]) + 1), {"op": "close"})
    sc = {"property": ID, "config": cfg, "tasks": tasks, "exchanges": [], "schedule": gen_schedule(rng)}
    if rng.random() < 0.12 and not cfg["preload"]:
        # one request is only partly read before its connection is released and the response dropped, while the rest of its
        # (chunked) body -- which is itself a well-formed HTTP response -- is still in flight: whoever gets that connection
        # next must not be answered by the tail
        t = rng.choice(tasks)
        op = rng.choice([o for o in t["ops"] if o["op"] == "request"])
        op["partial"] = rng.choice([0, 10])
        sc["late_tail"] = {"path": op["path"], "framing": rng.choice(["cl", "chunked"]), "delay": rng.choice([0.5, 3.0])}
    if rng.random() < 0.3:
        sc["exchanges"] = [rng.choice([{"k": "rst"}, {"k": "eof"}, {"k": "resp", "status": 200, "keepalive": False},
                                       # a body-less redirect back to the same resource: the pool drains it, releases the connection and asks again
                                       {"k": "resp", "status": rng.choice([302, 307]), "headers": [["Location", "{target}"]], "body": ""},
                                       {"k": "resp", "status": 303, "headers": [["Location", "{target}"]], "body": "see other"},
                                       # an empty answer: only reading it to its (immediate) end gives the connection back
                                       {"k": "resp", "status": 200, "body": "", "autobody": False}, {"k": "resp", "status": 204}])]
    if not cfg["preload"] and rng.random() < 0.35:
        cfg["read_style"] = rng.choice(["stream_only", "iter_only", "read_only"])
    if rng.random() < 0.2:
        cfg["release_conn"] = False  # the caller says it will give the connection back itself -- and does, after taking the body
    return sc


def cases(seed, k, tier):
    rng = rng_for(seed, ID, k)
    if k % 25 != 0:
        yield gen(rng)
        return
    # systematic stratum: every single pre-emption (and sampled pairs) of one small scenario.
    # Default continuation: the running task keeps running; on block the lowest-numbered ready task runs.
    base = gen(rng)
    base["tasks"] = base["tasks"][:2] if rng.random() < 0.7 else base["tasks"]
    base["schedule"] = {"decisions": []}
    yield base
    r = run(base)
    S_ = r.steps
    names = [t["name"] for t in base["tasks"]]
    cap = 250 if tier == "quick" else 1200
    steps = list(range(1, S_ + 1))
    if len(steps) > cap:
        steps = sorted(rng.sample(steps, cap))
    for st in steps:
        sc = copy.deepcopy(base)
        sc["schedule"] = {"decisions": [[st, rng.choice(names[1:]) if rng.random() < 0.8 else names[0]]]}
        yield sc
    for _ in range(cap // 2):
        a, b = sorted(rng.sample(range(1, S_ + 40), 2))
        sc = copy.deepcopy(base)
        sc["schedule"] = {"decisions": [[a, rng.choice(names)], [b, rng.choice(names)]]}
        yield sc


def run(sc: dict) -> Result:
    from urllib3.exceptions import ClosedPoolError, EmptyPoolError

    res = Result()
    urllib3 = H.u3()
    cfg = sc["config"]
    w = W.World({"exchanges": sc.get("exchanges") or []})
    w.default_listener = H.origin_factory()
    shared = []

    def on_socket(rec):
        rec.tags["last_sender"] = None

        def owner(op, r):
            me = sched.current_task()
            if op == "send":
                r.tags["last_sender"] = me
            else:
                ls = r.tags.get("last_sender")
                if ls is not None and ls != me and me != "main":
                    shared.append((r.sid, ls, me))

        rec.owner = owner

    w.on_socket = on_socket
    lt = sc.get("late_tail")
    if lt:
        def responder(world, peer, req):
            if req.target == lt["path"] and not world.tags.get("late_tail_served"):
                world.tags["late_tail_served"] = True
                ex = {"k": "resp", "status": 200, "framing": lt["framing"], "body": {"tag": 30, "embed": True}, "split_embed": lt["delay"]}
                if lt["framing"] == "chunked":
                    ex["chunks"] = [100000]
                return ex
            return None

        w.responder = responder
    has_close = any(o["op"] == "close" for t in sc["tasks"] for o in t["ops"])
    results = {}
    close_info = {"victims": [], "began": False}
    with H.RunEnv(), H.quiet_warnings(), w:
        sched = S.Scheduler(w, sc["schedule"])
        pool = urllib3.HTTPConnectionPool("h.test", 80, maxsize=cfg["maxsize"], block=cfg["block"], timeout=7.0, retries=cfg.get("retries", 2))
        # (with retries=0 a scripted redirect is final too: "too many redirects")
        injected_failures = sum(1 for ex in sc.get("exchanges") or [] if ex.get("k") in ("rst", "eof") or ex.get("status") in (302, 303, 307)) if cfg.get("retries", 2) == 0 else 0
        tolerated = [0]
        empties = [sum(1 for ex in sc.get("exchanges") or [] if ex.get("status") == 204 or (ex.get("status") == 200 and ex.get("body") == ""))]
        qid = id(pool.pool)
        pref = weakref.ref(pool)

        def on_enter(q, block):
            # is the queue this caller is about to wait on still the pool's?  (close() swaps it out; the unchanged code cannot
            # call get() on the old object once the swap has happened, because it reads self.pool in the very same expression)
            p = pref()
            if block:
                sched.trace.append((sched.current_task(), "get_enter", bool(p is None or p.pool is not q), None))

        pool.pool.on_enter = on_enter

        def make(task):
            def body():
                out = []
                for op in task["ops"]:
                    if op["op"] == "close":
                        close_info["began"] = True
                        close_info["victims"] += [t.name for t in sched.tasks if t.state == "blocked" and t.wait_key == ("notempty", qid)]
                        sched.trace.append(("*", "close_begin", None, None))
                        pool.close()
                        out.append(("close", None))
                        continue
                    try:
                        rc_kw = {"release_conn": False} if cfg.get("release_conn") is False else {}
                        r = pool.urlopen("GET", op["path"], preload_content=cfg["preload"], pool_timeout=cfg["pool_timeout"], **rc_kw)
                        if "partial" in op and not cfg["preload"]:
                            data = r.read(op["partial"]) if op["partial"] else b""
                            st = r.status
                            r.release_conn()
                            r = None
                            H.collect()  # the caller lets go of the response object
                            out.append(("part", op["path"], st, data))
                            continue
                        style = cfg.get("read_style")
                        if cfg["preload"]:
                            data = r.data
                        elif style == "stream_only":
                            data = b"".join(r.stream(16))  # consumed to the end; that alone returns the connection
                        elif style == "iter_only":
                            data = b"".join(r)
                        elif style == "read_only":
                            data = r.read()
                        else:
                            data = r.read()
                            r.release_conn()
                        if rc_kw:
                            r.release_conn()
                        out.append(("ok", op["path"], r.status, data))
                    except (S.SimDeadlock, S.TaskAbort, W.StepLimit, W.SimHang) as e:
                        out.append(("stuck", op["path"], type(e).__name__, str(e)[:120]))
                        raise
                    except Exception as e:
                        H.strip_tb(e)
                        out.append(("exc", op["path"], e))
                return out

            def wrapped():
                try:
                    return body()
                finally:
                    pass

            return body

        for t in sc["tasks"]:
            sched.spawn(t["name"], make(t))
        # run to completion
        tasks = list(sched.tasks)
        partial = {}
        try:
            sched.run()
        finally:
            pass
        for t in tasks:
            results[t.name] = (t.result, t.error)
        # ---- oracle
        if sched.verdict == "deadlock":
            res.bad("deadlock", f"tasks blocked for ever: {[(t.name, type(t.error).__name__) for t in tasks if isinstance(t.error, S.SimDeadlock)]}; close() in scenario: {has_close}")
        elif sched.verdict == "step_limit":
            res.bad("no_termination", "scheduler step cap reached")
        for name, (out, err) in results.items():
            if err is not None and not isinstance(err, (S.SimDeadlock, S.TaskAbort, W.StepLimit)):
                res.bad(f"task_crashed:{type(err).__name__}", f"{name}: {err!r:.160}")
            for item in out or []:
                if item[0] == "part":
                    _, path, status, data = item
                    res.probes["partial_read_released"] += 1
                    if status != 200 or not (f"[GET {path} #").encode().startswith(data[:len(f"[GET {path} #")]):
                        res.bad("wrong_response", f"{name} asked {path} and the first bytes were {data[:40]!r} (status {status})")
                elif item[0] == "ok":
                    _, path, status, data = item
                    if data == b"" and status in (200, 204) and empties[0] > 0:
                        empties[0] -= 1  # the scripted empty answer
                        res.probes["empty_answer_consumed"] += 1
                    elif (f"[GET {path} #").encode() not in data or status != 200:
                        res.bad("wrong_response", f"{name} asked {path} and received status {status} body {data[:60]!r}")
                elif item[0] == "exc":
                    e = item[2]
                    if has_close and isinstance(e, ClosedPoolError):
                        res.probes["closed_pool_error"] += 1
                    elif injected_failures and tolerated[0] < injected_failures and H.is_urllib3_error(e) and not isinstance(e, (EmptyPoolError, ClosedPoolError)):
                        tolerated[0] += 1  # the scripted connection loss with no retry left
                        res.probes["final_failure_leaves_placeholder"] += 1
                    elif has_close and isinstance(e, EmptyPoolError):
                        res.bad("empty_pool_error_after_close", f"{name} {item[1]}: {e!r:.120} ")
                    elif isinstance(e, EmptyPoolError):
                        res.bad("lost_slot_or_wakeup:EmptyPoolError", f"{name} {item[1]}: no connection within {cfg['pool_timeout']} virtual seconds although every lease is finite")
                    elif has_close and H.is_urllib3_error(e) and type(e).__name__ in ("MaxRetryError", "ProtocolError", "NewConnectionError") and False:
                        pass
                    else:
                        res.bad(f"unexpected_exception:{type(e).__name__}", f"{name} {item[1]}: {e!r:.160}")
        if shared:
            res.bad("connection_used_by_two_tasks", f"socket {shared[0][0]}: request sent by {shared[0][1]}, bytes received by {shared[0][2]}")
        if any(s.tags.get("dirty_at_write") for s in w.sockets):
            res.bad("write_on_busy_socket", "a request was written onto a socket that still had a response pending")
        if cfg["block"]:
            open_now = 0
            worst = 0
            for e in w.events:
                if e[1] == "connected":
                    open_now += 1
                    worst = max(worst, open_now)
                elif e[1] in ("close", "close_dealloc", "close_dealloc_fp"):
                    sid = e[2]
                    if w.sockets[sid].connected:
                        open_now -= 1
            if worst > cfg["maxsize"]:
                res.bad("over_maxsize", f"{worst} connections open at once on a block=True pool of maxsize {cfg['maxsize']}")
        if sched.verdict is None and not res.violations:
            res.probes["all_completed"] += 1
        # ---- nothing stays open once the pool object is gone (drop every reference: exceptions carry the pool)
        out = err = item = e = name = t = None
        pool = None
        for t in tasks:
            t.result = None
            t.fn = None
            t.error = None
            t.abort = None
        t = None
        results.clear()
        H.collect()
        left = w.open_sockets()
        if left:
            res.bad("socket_open_after_pool_dropped", f"{len(left)} sockets still open: {left}")
        # ... and "closed" means closed by urllib3 (close() or the pool's finalizer), not merely reclaimed when the
        # last reference to the socket object happened to go away: until then the descriptor stays open
        # (on CPython a ResourceWarning, on other interpreters until some later collection)
        by_gc = [e[2] for e in w.events if e[1] == "close_dealloc"]
        if by_gc:
            res.bad("socket_closed_only_by_garbage_collection", f"sockets {by_gc} were never closed by urllib3; only deallocation of the socket object released them")
        if sched.preemptions:
            res.probes["preempted"] += 1
        if any(x[1] == "block" and x[2] == "notempty" for x in sched.trace):
            res.probes["blocked_in_get"] += 1
        if has_close and sched.preemptions:
            res.probes["close_raced"] += 1
        if len([q for q in w.requests]) > sum(1 for t in sc["tasks"] for o in t["ops"] if o["op"] == "request"):
            res.probes["retry_concurrent"] += 1
        if any((ex.get("status") or 0) in (302, 303, 307) for ex in sc.get("exchanges") or []) and len(w.requests) > 1:
            res.probes["redirect_concurrent"] += 1
        if sc["schedule"].get("strategy") == "pct":
            res.probes["pct_schedule"] += 1
        if len(sc["schedule"].get("decisions") or []) == 1 and sched.preemptions:
            res.probes["systematic_single_preemption"] += 1
        # a task that is (or gets) parked in get() on the queue that close() swapped out can never be served from it
        seen_close = False
        stale = {}
        stale_victims = []
        for x in sched.trace:
            if x[1] == "close_begin":
                seen_close = True
            elif x[1] == "get_enter":
                stale[x[0]] = x[2]
            elif seen_close and x[1] == "block" and x[2] == "notempty":
                (stale_victims if stale.get(x[0]) else close_info["victims"]).append(x[0])
        res.info["victims"] = sorted(set(close_info["victims"]))
        # tasks that *called* get() on a queue close() had already swapped out: not the recorded finding (that one is about callers
        # already inside get() when close() begins)
        res.info["stale_victims"] = sorted(set(stale_victims))
        if stale_victims:
            res.probes["get_called_on_swapped_out_queue"] += 1
        res.info["switch_log"] = list(sched.switch_log)
        res.faults.update(w.faults_fired)
        res.faults["preemptions"] += sched.preemptions
        res.digest = w.digest() + ":" + stable_hash(sched.trace)
        res.trace = sched.signature()
        res.nontrivial = sched.preemptions > 0
        res.sim_s = w.now - W.VClock.START
        res.steps = sched.steps
    return res


def shrinks(sc):
    # 1. turn the seeded schedule into its explicit decision list, then drop decisions
    sch = sc["schedule"]
    if "decisions" not in sch:
        r = run(sc)
        c = copy.deepcopy(sc)
        c["schedule"] = {"decisions": [list(x) for x in r.info.get("switch_log", [])]}
        yield c
    else:
        dec = sch["decisions"]
        n = len(dec)
        if n > 1:
            half = n // 2
            for part in (dec[:half], dec[half:]):
                c = copy.deepcopy(sc)
                c["schedule"] = {"decisions": part}
                yield c
        for i in range(n):
            c = copy.deepcopy(sc)
            c["schedule"] = {"decisions": dec[:i] + dec[i + 1 :]}
            yield c
    for ti, t in enumerate(sc["tasks"]):
        if len(sc["tasks"]) > 2 or True:
            for oi in range(len(t["ops"])):
                c = copy.deepcopy(sc)
                del c["tasks"][ti]["ops"][oi]
                c["tasks"] = [x for x in c["tasks"] if x["ops"]]
                if len(c["tasks"]) >= 1:
                    yield c
    if sc.get("exchanges"):
        c = copy.deepcopy(sc)
        c["exchanges"] = []
        yield c
    if sc.get("late_tail"):
        c = copy.deepcopy(sc)
        del c["late_tail"]
        for t in c["tasks"]:
            for o in t["ops"]:
                o.pop("partial", None)
        yield c
    if sc["config"].get("retries") == 0:
        c = copy.deepcopy(sc)
        del c["config"]["retries"]
        yield c
    if sc["config"].get("read_style"):
        c = copy.deepcopy(sc)
        del c["config"]["read_style"]
        yield c
    if "release_conn" in sc["config"]:
        c = copy.deepcopy(sc)
        del c["config"]["release_conn"]
        yield c
    for fld, simple in (("maxsize", 1), ("preload", True)):
        if sc["config"][fld] != simple:
            c = copy.deepcopy(sc)
            c["config"][fld] = simple
            yield c


def _trig_close_waiter(sc, res):
    return any(o["op"] == "close" for t in sc["tasks"] for o in t["ops"]) and bool(res.info.get("victims")) and not res.info.get("stale_victims")


def _neut_close_waiter(sc):
    for t in sc["tasks"]:
        t["ops"] = [o for o in t["ops"] if o["op"] != "close"]
    sc["tasks"] = [t for t in sc["tasks"] if t["ops"]]
    return sc


KNOWN = {"KF-C02-waiter-not-woken-by-close": (_trig_close_waiter, _neut_close_waiter)}
