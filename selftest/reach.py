#!/venv/bin/python
"""Which lines of urllib3 do the checks execute?  (a reach measure for DESIGN.md, and a guide for widening generators)

usage: selftest/reach.py run [Cnn ...]     run the quick checks with VERIF_COVERAGE_DIR set (results under /tmp/verif_reach)
       selftest/reach.py report [--lines]  per file: executable lines, lines reached by any check, functions never entered
"""
import ast, glob, json, os, subprocess, sys

HERE = os.path.dirname(os.path.abspath(__file__))
VERIF = os.path.dirname(HERE)
OUT = "/tmp/verif_reach"
SRC = "/repo/src/urllib3"
PROPS = "C01 C02 C03 C04 C05 C06 C07 C09 C10 C11 C12 C13 C15 C17 C18 C19".split()
FILES = ["connectionpool.py", "connection.py", "response.py", "poolmanager.py", "_collections.py", "_request_methods.py", "_base_connection.py", "util/retry.py", "util/timeout.py",
         "util/request.py", "util/connection.py", "util/ssl_.py", "util/ssl_match_hostname.py", "util/proxy.py", "util/ssltransport.py", "util/url.py", "util/wait.py", "util/response.py",
         "util/util.py", "contrib/pyopenssl.py", "http2/connection.py", "http2/probe.py", "exceptions.py", "fields.py", "filepost.py"]


def executable_lines(path):
    code = compile(open(path).read(), path, "exec")
    lines = set()

    def walk(c):
        for _, _, ln in c.co_lines():
            if ln:
                lines.add(ln)
        for k in c.co_consts:
            if hasattr(k, "co_code"):
                walk(k)

    walk(code)
    return lines


def functions(path):
    tree = ast.parse(open(path).read())
    out = []

    def visit(node, prefix):
        for ch in ast.iter_child_nodes(node):
            if isinstance(ch, (ast.FunctionDef, ast.AsyncFunctionDef)):
                body = ch.body
                first = body[1].lineno if (isinstance(body[0], ast.Expr) and isinstance(getattr(body[0], "value", None), ast.Constant) and len(body) > 1) else body[0].lineno
                out.append((prefix + ch.name, first, ch.end_lineno))
                visit(ch, prefix + ch.name + ".")
            elif isinstance(ch, ast.ClassDef):
                visit(ch, prefix + ch.name + ".")
            else:
                visit(ch, prefix)

    visit(tree, "")
    return out


def main():
    a = sys.argv[1:]
    if a[:1] == ["run"]:
        for pid in a[1:] or PROPS:
            env = dict(os.environ, VERIF_COVERAGE_DIR=os.path.join(OUT, pid), VERIF_OUT_DIR=os.path.join(OUT, "out"), VERIF_EVIDENCE_DIR=os.path.join(OUT, "ev"))
            r = subprocess.run([os.path.join(VERIF, "check"), pid], env=env, cwd=VERIF, stdout=subprocess.PIPE, stderr=subprocess.STDOUT, text=True)
            print(pid, r.returncode, r.stdout.strip().splitlines()[-1][:120], flush=True)
        return 0
    show_lines = "--lines" in a
    per_check = {}
    for pid in PROPS:
        s = set()
        for f in glob.glob(os.path.join(OUT, pid, "*.json")):
            s |= {tuple(x) for x in json.load(open(f))}
        per_check[pid] = s
    allhit = set().union(*per_check.values())
    summary = {}
    for rel in FILES:
        path = os.path.join(SRC, rel)
        ex = executable_lines(path)
        hit = {ln for (f, ln) in allhit if f == rel} & ex
        never = []
        for name, lo, hi in functions(path):
            body = {ln for ln in ex if lo <= ln <= hi}
            if body and not (body & hit):
                never.append(name)
        summary[rel] = {"executable": len(ex), "reached": len(hit), "functions_never_entered": never}
        print(f"{rel:28s} {len(hit):5d}/{len(ex):5d} lines reached  never entered: {', '.join(never) or '-'}")
        if show_lines:
            miss = sorted(ex - hit)
            print("    unreached lines:", miss)
    json.dump({"per_file": summary, "per_check_lines": {k: len(v) for k, v in per_check.items()}}, open(os.path.join(OUT, "summary.json"), "w"), indent=1)
    return 0


if __name__ == "__main__":
    sys.exit(main())
