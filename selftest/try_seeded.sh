#!/bin/bash
# usage: selftest/try_seeded.sh <patch.diff> <Cnn> [extra check args]
# Applies an (independently written) breaking change to a scratch copy of /repo/src and runs the
# property's check against it (VERIF_REPO_SRC).  Exit status = the check's.
set -u
patch="$(realpath "$1")"; prop="$2"; shift 2
d="$(mktemp -d /tmp/seedsrc.XXXXXX)"
cp -r /repo/src "$d/src"
if ! (cd "$d" && patch -s -p1 < "$patch"); then echo "patch does not apply"; rm -rf "$d"; exit 3; fi
cd "$(dirname "$0")/.."
VERIF_REPO_SRC="$d/src" ./check "$prop" "$@"
rc=$?
rm -rf "$d"
exit $rc
