#!/venv/bin/python
"""Run only the 683 stable-pass tests of /root/.vp/BASELINE.json in a given checkout of urllib3.

usage: selftest/run_pinned.py <repo-dir>        exit 0 iff every stable-pass test passes there.

The full pinned command also collects tests that hang without a network (always_fail / dropped);
this runner selects the stable ones by node id so that a scratch worktree can be judged in ~1 min.
"""
import json, os, subprocess, sys, tempfile
import xml.etree.ElementTree as ET

repo = os.path.abspath(sys.argv[1])
base = json.load(open("/root/.vp/BASELINE.json"))
want = [s for s in base["stable_pass"] if s != "::"]
files = set()
for s in want:
    cls = s.split("::")[0]
    mod = cls.rsplit(".", 1)[0]
    files.add(mod.replace(".", "/") + ".py")
out = tempfile.mktemp(suffix=".xml", prefix="pinned_")
env = dict(os.environ)
env.pop("URLLIB3_VERIF_SIM", None)
cmd = ["/venv/bin/python", "-m", "pytest", "-q", "-p", "no:cacheprovider", "--timeout=120",
       "--continue-on-collection-errors", "--junitxml=" + out, "-x" if "-x" in sys.argv else "-q"] + sorted(files)
# test_util / test_retry etc. are not among the files, so nothing that needs the network is collected
# apart from individual always-fail tests inside these files, which are deselected below.
keep = set(want)
sel = tempfile.mktemp(suffix=".py", prefix="pinned_sel_")
open(sel, "w").write(
    "import json\nKEEP=set(json.load(open(%r)))\n"
    "def pytest_collection_modifyitems(config, items):\n"
    "    k=[]; d=[]\n"
    "    for it in items:\n"
    "        cls=it.nodeid.split('::',2)\n"
    "        mod=cls[0][:-3].replace('/','.')\n"
    "        name=mod+('.'+cls[1] if len(cls)>2 else '')+'::'+cls[-1]\n"
    "        (k if name in KEEP else d).append(it)\n"
    "    items[:]=k; config.hook.pytest_deselected(items=d)\n" % (sel + ".json"))
json.dump(sorted(keep), open(sel + ".json", "w"))
env["PYTHONPATH"] = os.path.dirname(sel) + os.pathsep + os.path.join(repo, "src")  # the venv has an editable install of /repo/src
where = subprocess.run(["/venv/bin/python", "-c", "import urllib3,sys; sys.stdout.write(urllib3.__file__)"], cwd=repo, env=env, stdout=subprocess.PIPE, text=True).stdout
assert where.startswith(os.path.join(repo, "src")), where
cmd[3:3] = ["-p", os.path.basename(sel)[:-3]]
r = subprocess.run(cmd, cwd=repo, env=env, stdout=subprocess.PIPE, stderr=subprocess.STDOUT, text=True, timeout=1500)
passed = set()
try:
    for tc in ET.parse(out).getroot().iter("testcase"):
        if not any(ch.tag in ("failure", "error", "skipped") for ch in tc):
            passed.add(tc.get("classname", "") + "::" + tc.get("name", ""))
finally:
    for f in (out, sel, sel + ".json"):
        try: os.unlink(f)
        except OSError: pass
missing = sorted(keep - passed)
print(r.stdout.strip().splitlines()[-1] if r.stdout.strip() else "")
print("stable-pass tests passing: %d of %d" % (len(keep & passed), len(keep)))
for m in missing[:40]:
    print("NOT PASSING:", m)
sys.exit(0 if not missing else 1)
