#!/venv/bin/python
"""Runs every quick check against property-preserving edits of urllib3 (selftest/benign/edits.py): all must exit 0.

usage: selftest/benign.py [name ...]      results -> selftest/benign/results.json
"""
import json, os, shutil, subprocess, sys, tempfile

HERE = os.path.dirname(os.path.abspath(__file__))
VERIF = os.path.dirname(HERE)
sys.path.insert(0, os.path.join(HERE, "benign"))
from edits import EDITS  # noqa: E402

PROPS = "C01 C02 C03 C04 C05 C06 C07 C09 C10 C11 C12 C13 C15 C17 C18 C19".split()


def sh(cmd, **kw):
    return subprocess.run(cmd, stdout=subprocess.PIPE, stderr=subprocess.STDOUT, text=True, **kw)


def main():
    names = sys.argv[1:] or sorted(EDITS)
    resf = os.path.join(HERE, "benign", "results.json")
    results = json.load(open(resf)) if os.path.exists(resf) else {}
    head = sh(["git", "-C", "/repo", "rev-parse", "--short", "HEAD"]).stdout.strip()
    for name in names:
        wt = tempfile.mkdtemp(prefix="benign_wt_", dir="/tmp")
        os.rmdir(wt)
        assert sh([os.path.join(HERE, "mkwt.sh"), wt]).returncode == 0
        scratch = tempfile.mkdtemp(prefix="benign_out_", dir="/tmp")
        row = {"repo_head": head, "checks": {}}
        try:
            for rel, old, new in EDITS[name]:
                p = os.path.join(wt, "src/urllib3", rel)
                t = open(p).read()
                assert old in t, (name, rel, old)
                open(p, "w").write(t.replace(old, new))
            r = sh([os.path.join(HERE, "run_pinned.py"), wt])
            row["pinned"] = r.stdout.strip().splitlines()[-1] if r.returncode == 0 else r.stdout.strip()[-300:]
            for pid in PROPS:
                env = dict(os.environ, VERIF_REPO_SRC=os.path.join(wt, "src"), VERIF_OUT_DIR=os.path.join(scratch, "out"), VERIF_EVIDENCE_DIR=os.path.join(scratch, "ev"), VERIF_SEED="1")
                r = sh([os.path.join(VERIF, "check"), pid], env=env, cwd=VERIF, timeout=3600)
                row["checks"][pid] = r.returncode
                if r.returncode != 0:
                    row.setdefault("alarms", {})[pid] = [l for l in r.stdout.splitlines() if "VIOLATION" in l or "class=" in l or "HARNESS" in l][:6]
            row["silent"] = all(v == 0 for v in row["checks"].values())
        finally:
            sh(["git", "-C", "/repo", "worktree", "remove", "--force", wt])
            shutil.rmtree(wt, ignore_errors=True)
            shutil.rmtree(scratch, ignore_errors=True)
            sh(["git", "-C", "/repo", "worktree", "prune"])
        results[name] = row
        json.dump(results, open(resf, "w"), indent=1)
        print(name, "silent" if row["silent"] else "ALARM " + json.dumps(row.get("alarms")), "| pinned:", row["pinned"][-60:], flush=True)
    return 0 if all(r.get("silent") for r in results.values()) else 1


if __name__ == "__main__":
    sys.exit(main())
