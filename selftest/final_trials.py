#!/venv/bin/python
"""Re-runs the trial of every seeded change (or of those named) against /repo HEAD and records it as meta.json["final_trial"].

usage: selftest/final_trials.py [-j N] [id ...]
"""
import json, os, re, subprocess, sys
from concurrent.futures import ThreadPoolExecutor

HERE = os.path.dirname(os.path.abspath(__file__))
VERIF = os.path.dirname(HERE)


def one(id_):
    d = os.path.join(VERIF, "seeded", id_)
    mf = os.path.join(d, "meta.json")
    m = json.load(open(mf))
    if m.get("skip_final"):
        return id_, True, ""  # (documented in meta.json: e.g. a change neutralised by the repair it led to)
    how = m.get("how_run", "")
    also = re.search(r"--also (\S+)", how)
    cmd = [os.path.join(HERE, "trial.py"), d, m["property"]] + (["--also", also.group(1)] if also else [])
    r = subprocess.run(cmd, stdout=subprocess.PIPE, stderr=subprocess.PIPE, text=True)
    try:
        t = json.loads(r.stdout)
    except Exception:
        return id_, None, (r.stdout + r.stderr)[-400:]
    head = subprocess.run(["git", "-C", "/repo", "rev-parse", "--short", "HEAD"], stdout=subprocess.PIPE, text=True).stdout.strip()
    m["final_trial"] = {"repo_head": head, "confirmed": {k: t.get(k) for k in ("patch_applies", "pinned_ok", "demo_with_change_rc", "demo_clean_rc")}, "checks": t.get("checks", {}), "caught": bool(t.get("caught"))}
    json.dump(m, open(mf, "w"), indent=1)
    ok = t.get("patch_applies") and t.get("pinned_ok") and t.get("demo_with_change_rc") and t.get("demo_clean_rc") == 0 and t.get("caught")
    return id_, bool(ok), "" if ok else json.dumps({k: t.get(k) for k in ("patch_applies", "pinned_ok", "demo_with_change_rc", "demo_clean_rc", "caught", "error")})


def main():
    a = sys.argv[1:]
    j = 4
    if a[:1] == ["-j"]:
        j = int(a[1]); a = a[2:]
    ids = a or sorted(x for x in os.listdir(os.path.join(VERIF, "seeded")) if os.path.exists(os.path.join(VERIF, "seeded", x, "meta.json")))
    bad = 0
    with ThreadPoolExecutor(j) as ex:
        for id_, ok, note in ex.map(one, ids):
            print(id_, "ok" if ok else "ATTENTION " + note, flush=True)
            bad += not ok
    print(f"{len(ids) - bad} of {len(ids)} confirmed and caught")
    return 1 if bad else 0


if __name__ == "__main__":
    sys.exit(main())
