#!/venv/bin/python
"""Mechanical first-order mutants of the urllib3 sources, run against the pinned tests and the checks.

The sub-agent rounds (DESIGN.md section 10) supply *realistic* breaking changes; this tool supplies *many* small ones, to measure
which statements of the anchored code no check would notice being wrong.  It is a self-test of /verif, not a check of urllib3:
nothing here is registered in MANIFEST.json.

usage:
  selftest/mutate.py list  [--files a.py,b.py]                      enumerate candidate mutants (id, file, line, operator)
  selftest/mutate.py run   --out DIR [--n N] [--seed S] [--jobs J] [--files ...] [--ids id,id]
        for each sampled mutant, in a scratch git worktree of /repo (removed afterwards):
          1. the mutated file must compile           2. the 682 stable pinned tests (stops at the first failure: "killed by tests")
          3. the quick checks of the properties anchored in that file, in order, until one exits 1 ("killed by Cnn")
        survivors are written to DIR/survivors/<id>.diff with the list of checks that ran clean.
  selftest/mutate.py report --out DIR                                 summary table (also DIR/summary.json)

Operators: comparison swaps (< <=, > >=, == !=, is / is not, in / not in), and/or, dropped `not`, negated if/while/ternary test,
True/False, small integer +1, deleted call statement, deleted attribute assignment, deleted raise, + / -, min / max.
Never touched: logging and warning calls, docstrings, messages, __repr__/__str__, typing-only code.
"""
from __future__ import annotations

import ast
import hashlib
import json
import os
import random
import re
import shutil
import subprocess
import sys
import tempfile
import time
from concurrent.futures import ThreadPoolExecutor

HERE = os.path.dirname(os.path.abspath(__file__))
VERIF = os.path.dirname(HERE)
SRC = "/repo/src/urllib3"

# file (relative to src/urllib3) -> checks to try, most likely killer first
FILES = {
    "connectionpool.py": ["C01", "C03", "C04", "C02", "C19", "C05", "C09", "C11", "C13", "C06", "C17", "C18", "C15", "C07", "C10"],
    "connection.py": ["C07", "C09", "C11", "C10", "C15", "C19", "C01", "C03", "C13", "C18"],
    "response.py": ["C12", "C13", "C03", "C01", "C02"],
    "poolmanager.py": ["C17", "C18", "C05", "C06", "C15", "C09", "C11", "C04"],
    "util/retry.py": ["C04", "C05", "C06", "C01"],
    "util/timeout.py": ["C19", "C01"],
    "util/request.py": ["C11", "C10", "C05"],
    "util/connection.py": ["C01", "C15", "C19", "C03"],
    "util/ssl_.py": ["C07", "C09", "C18"],
    "util/ssl_match_hostname.py": ["C07"],
    "util/proxy.py": ["C09", "C15"],
    "util/ssltransport.py": ["C09", "C07", "C01", "C19", "C13", "C03", "C04"],
    "util/url.py": ["C15", "C10", "C05"],
    "util/wait.py": ["C03", "C01", "C02"],
    "util/response.py": ["C12", "C13", "C03"],
    "_collections.py": ["C17"],
    "_request_methods.py": ["C10", "C11", "C05"],
    "_base_connection.py": [],
}
SKIP_FUNCS = {"__repr__", "__str__", "__reduce__", "_new_conn_repr"}
SKIP_CLASSES = {"BrotliDecoder"}  # brotli is not installed here: the class is never defined, nothing could notice
SKIP_CALL_PREFIX = ("log.", "warnings.", "logging.", "typing.")
# _collections.py: only the recently-used container is in scope (HTTPHeaderDict belongs to a property that is not applicable here)
ONLY_CLASSES = {"_collections.py": {"RecentlyUsedContainer"}}

CMP = {ast.Lt: ("<", "<="), ast.LtE: ("<=", "<"), ast.Gt: (">", ">="), ast.GtE: (">=", ">"), ast.Eq: ("==", "!="), ast.NotEq: ("!=", "=="),
       ast.Is: ("is", "is not"), ast.IsNot: ("is not", "is"), ast.In: ("in", "not in"), ast.NotIn: ("not in", "in")}


def _src_lines(path):
    return open(path).read().split("\n")


class Finder(ast.NodeVisitor):
    def __init__(self, rel, text):
        self.rel, self.text = rel, text
        self.lines = text.split("\n")
        self.out = []  # (line, col, end_line, end_col, replacement, operator, note)
        self.func = []
        self.cls = []
        self.skip_depth = 0

    # -- helpers
    def seg(self, node):
        return ast.get_source_segment(self.text, node)

    def pos(self, line, col):
        """absolute offset of (1-based line, col in utf8 bytes) -- files are ASCII, so col == character index"""
        return sum(len(l) + 1 for l in self.lines[: line - 1]) + col

    def add(self, a, b, repl, op, note=""):
        if self.skip_depth or not self.func:
            return
        if self.rel in ONLY_CLASSES and not (self.cls and self.cls[0] in ONLY_CLASSES[self.rel]):
            return
        if self.func[-1] in SKIP_FUNCS or (self.cls and self.cls[0] in SKIP_CLASSES):
            return
        line = self.text.count("\n", 0, a) + 1
        self.out.append({"file": self.rel, "line": line, "a": a, "b": b, "repl": repl, "op": op, "func": ".".join(self.cls + self.func), "was": self.text[a:b][:60], "note": note})

    def between(self, left, right, words):
        a = self.pos(left.end_lineno, left.end_col_offset)
        b = self.pos(right.lineno, right.col_offset)
        s = self.text[a:b]
        for w in words:
            m = re.search(r"(?<![\w])" + re.escape(w).replace(r"\ ", r"\s+") + r"(?![\w=])" if w[0].isalpha() else re.escape(w), s)
            if m:
                return a + m.start(), a + m.end()
        return None

    # -- structure
    def visit_ClassDef(self, node):
        self.cls.append(node.name)
        self.generic_visit(node)
        self.cls.pop()

    def visit_FunctionDef(self, node):
        self.func.append(node.name)
        body = node.body
        if body and isinstance(body[0], ast.Expr) and isinstance(getattr(body[0], "value", None), ast.Constant) and isinstance(body[0].value.value, str):
            body = body[1:]
        for d in node.args.defaults + node.args.kw_defaults:
            pass  # defaults are API, not behaviour under test
        for st in body:
            self.visit(st)
        self.func.pop()

    visit_AsyncFunctionDef = visit_FunctionDef

    def visit_If(self, node):
        t = self.seg(node.test) or ""
        if "TYPE_CHECKING" in t:
            return
        self.negate_test(node.test, "if")
        self.generic_visit(node)

    def visit_While(self, node):
        if not (isinstance(node.test, ast.Constant)):
            self.negate_test(node.test, "while")
        self.generic_visit(node)

    def visit_IfExp(self, node):
        self.negate_test(node.test, "ternary")
        self.generic_visit(node)

    def negate_test(self, test, kind):
        if isinstance(test, ast.UnaryOp) and isinstance(test.op, ast.Not):
            return  # covered by "drop not"
        if isinstance(test, ast.Compare) and len(test.ops) == 1:
            return  # covered by the comparison swap
        a, b = self.pos(test.lineno, test.col_offset), self.pos(test.end_lineno, test.end_col_offset)
        self.add(a, b, "not (" + self.text[a:b] + ")", "negate_" + kind)

    def visit_Compare(self, node):
        if len(node.ops) == 1 and type(node.ops[0]) in CMP:
            old, new = CMP[type(node.ops[0])]
            r = self.between(node.left, node.comparators[0], [old])
            if r:
                self.add(r[0], r[1], new, "cmp:" + old.replace(" ", "_") + "->" + new.replace(" ", "_"))
        self.generic_visit(node)

    def visit_BoolOp(self, node):
        old, new = ("and", "or") if isinstance(node.op, ast.And) else ("or", "and")
        for l, r_ in zip(node.values, node.values[1:]):
            r = self.between(l, r_, [old])
            if r:
                self.add(r[0], r[1], new, f"bool:{old}->{new}")
        self.generic_visit(node)

    def visit_UnaryOp(self, node):
        if isinstance(node.op, ast.Not):
            a, b = self.pos(node.lineno, node.col_offset), self.pos(node.end_lineno, node.end_col_offset)
            op_src = self.seg(node.operand)
            self.add(a, b, "(" + op_src + ")", "drop_not")
        self.generic_visit(node)

    def visit_BinOp(self, node):
        if isinstance(node.op, (ast.Add, ast.Sub)) and not isinstance(node.left, ast.Constant) or (isinstance(node.op, (ast.Add, ast.Sub)) and isinstance(node.left, ast.Constant) and isinstance(node.left.value, (int, float))):
            if not (isinstance(node.left, ast.Constant) and isinstance(node.left.value, str)) and not (isinstance(node.right, ast.Constant) and isinstance(node.right.value, (str, bytes))):
                old, new = ("+", "-") if isinstance(node.op, ast.Add) else ("-", "+")
                r = self.between(node.left, node.right, [old])
                if r:
                    self.add(r[0], r[1], new, f"arith:{old}->{new}")
        self.generic_visit(node)

    def visit_Constant(self, node):
        a, b = self.pos(node.lineno, node.col_offset), self.pos(node.end_lineno, node.end_col_offset)
        if node.value is True:
            self.add(a, b, "False", "const:True->False")
        elif node.value is False:
            self.add(a, b, "True", "const:False->True")
        elif isinstance(node.value, int) and not isinstance(node.value, bool) and 0 <= node.value <= 16 and self.text[a:b].isdigit():
            self.add(a, b, str(node.value + 1), "const:int+1")

    def visit_Call(self, node):
        name = self.seg(node.func) or ""
        if name.startswith(SKIP_CALL_PREFIX):
            return
        if name in ("min", "max") and len(node.args) >= 2:
            a = self.pos(node.func.lineno, node.func.col_offset)
            self.add(a, a + 3, "max" if name == "min" else "min", f"call:{name}->" + ("max" if name == "min" else "min"))
        self.generic_visit(node)

    def visit_Expr(self, node):
        if isinstance(node.value, ast.Call):
            name = self.seg(node.value.func) or ""
            if name.startswith(SKIP_CALL_PREFIX) or name in ("super().__init__",):
                return
            self.stmt_delete(node, "del_call:" + name.split(".")[-1])
        self.generic_visit(node)

    def visit_Assign(self, node):
        if len(node.targets) == 1 and isinstance(node.targets[0], ast.Attribute) and self.func and self.func[-1] != "__init__":
            self.stmt_delete(node, "del_attr_assign:" + (self.seg(node.targets[0]) or "")[:30])
        self.generic_visit(node)

    def visit_AnnAssign(self, node):
        if node.value is not None:
            self.visit(node.value)

    def visit_Raise(self, node):
        if node.exc is not None:
            self.stmt_delete(node, "del_raise")
        # (the message is not behaviour under test)

    def visit_Assert(self, node):
        return

    def stmt_delete(self, node, op):
        a, b = self.pos(node.lineno, node.col_offset), self.pos(node.end_lineno, node.end_col_offset)
        self.add(a, b, "pass", op)


def candidates(files=None):
    out = []
    for rel in FILES:
        if files and rel not in files:
            continue
        path = os.path.join(SRC, rel)
        text = open(path).read()
        f = Finder(rel, text)
        f.visit(ast.parse(text))
        for c in f.out:
            c["id"] = "M" + hashlib.sha1(f"{rel}:{c['a']}:{c['b']}:{c['repl']}".encode()).hexdigest()[:8]
            out.append(c)
    return out


def apply(text, c):
    return text[: c["a"]] + c["repl"] + text[c["b"]:]


def sh(cmd, **kw):
    return subprocess.run(cmd, stdout=subprocess.PIPE, stderr=subprocess.STDOUT, text=True, **kw)


def run_one(c, outdir, wt, quick_env):
    rel = c["file"]
    path = os.path.join(wt, "src/urllib3", rel)
    orig = open(os.path.join(SRC, rel)).read()
    mutated = apply(orig, c)
    res = {k: c[k] for k in ("id", "file", "line", "op", "func", "was", "repl")}
    t0 = time.time()
    try:
        compile(mutated, path, "exec")
    except SyntaxError as e:
        res["status"] = "invalid"
        res["detail"] = str(e)[:100]
        return res
    open(path, "w").write(mutated)
    try:
        r = sh(["/venv/bin/python", "-c", "import urllib3, urllib3.contrib.pyopenssl, urllib3.poolmanager, urllib3.util.ssltransport"], env=dict(os.environ, PYTHONPATH=os.path.join(wt, "src")))
        if r.returncode != 0:
            res["status"] = "killed_by_import"
            return res
        r = sh([os.path.join(HERE, "run_pinned.py"), wt, "-x"])
        if r.returncode != 0:
            res["status"] = "killed_by_tests"
            m = re.search(r"NOT PASSING: (\S+)", r.stdout)
            res["detail"] = (m.group(1) if m else r.stdout[-200:])[:200]
            return res
        clean = []
        for pid in FILES[rel]:
            scratch = tempfile.mkdtemp(prefix="mut_out_", dir="/tmp")
            try:
                env = dict(os.environ, VERIF_REPO_SRC=os.path.join(wt, "src"), VERIF_OUT_DIR=os.path.join(scratch, "out"), VERIF_EVIDENCE_DIR=os.path.join(scratch, "ev"), VERIF_SEED="1", **quick_env)
                r = sh([os.path.join(VERIF, "check"), pid, "--tier", "quick"], env=env, cwd=VERIF, timeout=1800)
            except subprocess.TimeoutExpired:
                r = None
            finally:
                shutil.rmtree(scratch, ignore_errors=True)
            if r is None:
                res["status"] = "killed_by_" + pid
                res["detail"] = "check timed out (hang in the mutated code)"
                return res
            if r.returncode == 1:
                res["status"] = "killed_by_" + pid
                m = re.search(r"class=(\S+) detail=(.*)", r.stdout)
                res["detail"] = (m.group(1) + ": " + m.group(2)[:120]) if m else ""
                return res
            if r.returncode != 0:
                res["status"] = "killed_by_" + pid
                res["detail"] = "harness error (counts as noticed): " + r.stdout.strip()[-200:]
                res["harness_error"] = True
                return res
            clean.append(pid)
        res["status"] = "survived"
        res["clean_checks"] = clean
        os.makedirs(os.path.join(outdir, "survivors"), exist_ok=True)
        d = sh(["git", "-C", wt, "diff"]).stdout
        open(os.path.join(outdir, "survivors", c["id"] + ".diff"), "w").write(d)
        return res
    finally:
        res["wall_s"] = round(time.time() - t0, 1)
        open(path, "w").write(orig)


def cmd_run(args):
    outdir = os.path.abspath(args["out"])
    os.makedirs(outdir, exist_ok=True)
    cands = candidates(args.get("files"))
    done = set()
    resf = os.path.join(outdir, "results.jsonl")
    if os.path.exists(resf):
        for l in open(resf):
            done.add(json.loads(l)["id"])
    if args.get("ids"):
        pick = [c for c in cands if c["id"] in args["ids"]]
    else:
        rng = random.Random(int(args.get("seed", 1)))
        by_file = {}
        for c in cands:
            by_file.setdefault(c["file"], []).append(c)
        n = int(args.get("n", 100))
        total = len(cands)
        pick = []
        for rel, cs in sorted(by_file.items()):
            rng.shuffle(cs)
            k = max(2, round(n * len(cs) / total)) if FILES[rel] else 0
            pick += cs[:k]
    pick = [c for c in pick if c["id"] not in done]
    print(f"{len(cands)} candidates, running {len(pick)} (already done: {len(done)})", flush=True)
    jobs = int(args.get("jobs", 2))
    wts = []
    for j in range(jobs):
        wt = tempfile.mkdtemp(prefix="mut_wt_", dir="/tmp")
        os.rmdir(wt)
        r = sh([os.path.join(HERE, "mkwt.sh"), wt])
        assert r.returncode == 0, r.stdout
        wts.append(wt)
    import queue

    free = queue.Queue()
    for w in wts:
        free.put(w)

    def work(c):
        wt = free.get()
        try:
            return run_one(c, outdir, wt, {})
        except Exception as e:  # noqa: BLE001
            return {"id": c["id"], "file": c["file"], "line": c["line"], "op": c["op"], "status": "tool_error", "detail": repr(e)[:200]}
        finally:
            free.put(wt)

    try:
        with ThreadPoolExecutor(jobs) as ex, open(resf, "a") as out:
            for res in ex.map(work, pick):
                out.write(json.dumps(res) + "\n")
                out.flush()
                print(res["id"], res["file"], res["line"], res["op"], "->", res["status"], res.get("detail", "")[:80], flush=True)
    finally:
        for wt in wts:
            sh(["git", "-C", "/repo", "worktree", "remove", "--force", wt])
            shutil.rmtree(wt, ignore_errors=True)
        sh(["git", "-C", "/repo", "worktree", "prune"])
    cmd_report(args)


def cmd_report(args):
    outdir = os.path.abspath(args["out"])
    rows = [json.loads(l) for l in open(os.path.join(outdir, "results.jsonl"))]
    latest = {}
    for r in rows:
        latest[r["id"]] = r
    rows = list(latest.values())
    st = {}
    for r in rows:
        k = "killed_by_check" if r["status"].startswith("killed_by_C") else r["status"]
        st[k] = st.get(k, 0) + 1
    reached = [r for r in rows if r["status"] not in ("invalid", "killed_by_import", "killed_by_tests", "tool_error")]
    summ = {"mutants": len(rows), "by_status": st, "reached_the_checks": len(reached), "killed_by_a_check": st.get("killed_by_check", 0), "survived": st.get("survived", 0),
            "survivors": [{k: r.get(k) for k in ("id", "file", "line", "op", "func", "was", "repl", "clean_checks", "verdict")} for r in rows if r["status"] == "survived"]}
    json.dump(summ, open(os.path.join(outdir, "summary.json"), "w"), indent=1)
    print(json.dumps({k: v for k, v in summ.items() if k != "survivors"}, indent=1))
    for s in summ["survivors"]:
        print("SURVIVED", s["id"], s["file"], s["line"], s["func"], s["op"], repr(s["was"]), "->", repr(s["repl"])[:40])


def main():
    a = sys.argv[1:]
    if not a:
        print(__doc__)
        return 2
    cmd, a = a[0], a[1:]
    args = {}
    while a:
        k = a.pop(0)
        assert k.startswith("--"), k
        v = a.pop(0)
        args[k[2:]] = v.split(",") if k[2:] in ("files", "ids") else v
    if cmd == "list":
        cs = candidates(args.get("files"))
        for c in cs:
            print(c["id"], c["file"], c["line"], c["func"], c["op"], repr(c["was"])[:50])
        by = {}
        for c in cs:
            by[c["file"]] = by.get(c["file"], 0) + 1
        print(len(cs), "candidates", by)
    elif cmd == "run":
        cmd_run(args)
    elif cmd == "report":
        cmd_report(args)
    return 0


if __name__ == "__main__":
    sys.exit(main())
