#!/usr/bin/env python3
"""Regenerates the table of DESIGN.md section 10 from seeded/*/meta.json (between the two marker lines)."""
import json, os, re
HERE = os.path.dirname(os.path.dirname(os.path.abspath(__file__)))
rows = []
for d in sorted(os.listdir(os.path.join(HERE, "seeded"))):
    mf = os.path.join(HERE, "seeded", d, "meta.json")
    if not os.path.exists(mf):
        continue
    m = json.load(open(mf))
    first = m.get("first_trial") or {}
    fin = m.get("final_trial") or first
    def classes(t):
        out = []
        for k, v in (t.get("checks") or {}).items():
            if v.get("rc") == 1:
                out += [c for c in v.get("violation_classes", []) if c not in out]
        return out
    fc = classes(fin)
    note = "caught at first trial" if first.get("caught") else ("missed at first trial; caught after: " + m.get("strengthening", "check strengthened (see text)"))
    if not fin.get("caught"):
        note = "NOT caught: " + m.get("miss_reason", "")
    rows.append(f"| {d} | {m['property']} | {m['needs_to_manifest']} | {', '.join('`%s`' % c for c in fc[:3]) or '—'} | {note} |")
table = "\n".join(rows)
p = os.path.join(HERE, "DESIGN.md")
s = open(p).read()
if "SEEDED_TABLE_PLACEHOLDER" in s:
    s = s.replace("SEEDED_TABLE_PLACEHOLDER", "<!-- seeded-table-begin -->\n" + table + "\n<!-- seeded-table-end -->")
else:
    s = re.sub(r"<!-- seeded-table-begin -->.*?<!-- seeded-table-end -->", lambda _: "<!-- seeded-table-begin -->\n" + table + "\n<!-- seeded-table-end -->", s, flags=re.S)
open(p, "w").write(s)
print(len(rows), "rows")
