#!/venv/bin/python
"""Trial of one seeded (independently written) breaking change.

usage: selftest/trial.py <dir-with-patch.diff-and-demo.py> <Cnn> [--tier quick|thorough] [--also Cmm,...] [--seeds 1,2]

Steps, all in a scratch worktree under /tmp that is removed afterwards:
  1. patch applies to /repo HEAD                     2. the 682 stable pinned tests still pass with it
  3. demo.py fails with the change, passes without   4. ./check Cnn (against the patched tree via VERIF_REPO_SRC;
     evidence/out redirected to a temp dir) is expected to exit 1 with a VIOLATION line
Prints one JSON object (also usable as the "ran" part of meta.json).
"""
import json, os, re, shutil, subprocess, sys, tempfile, time

HERE = os.path.dirname(os.path.abspath(__file__))
VERIF = os.path.dirname(HERE)


def sh(cmd, **kw):
    return subprocess.run(cmd, stdout=subprocess.PIPE, stderr=subprocess.STDOUT, text=True, **kw)


def main():
    d = os.path.abspath(sys.argv[1])
    prop = sys.argv[2]
    tier = "quick"
    also = []
    seeds = ["1"]
    a = sys.argv[3:]
    while a:
        x = a.pop(0)
        if x == "--tier": tier = a.pop(0)
        elif x == "--also": also = a.pop(0).split(",")
        elif x == "--seeds": seeds = a.pop(0).split(",")
    wt = tempfile.mkdtemp(prefix="trial_wt_", dir="/tmp")
    os.rmdir(wt)
    scratch = tempfile.mkdtemp(prefix="trial_out_", dir="/tmp")
    out = {"dir": d, "property": prop, "tier": tier}
    try:
        r = sh([os.path.join(HERE, "mkwt.sh"), wt])
        assert r.returncode == 0, r.stdout
        r = sh(["git", "-C", wt, "apply", os.path.join(d, "patch.diff")])
        out["patch_applies"] = r.returncode == 0
        if r.returncode != 0:
            out["error"] = r.stdout[-500:]
            return out
        r = sh([os.path.join(HERE, "run_pinned.py"), wt])
        out["pinned_suite_with_change"] = r.stdout.strip().splitlines()[-1] if r.returncode == 0 else r.stdout[-800:]
        out["pinned_ok"] = r.returncode == 0
        env = dict(os.environ, PYTHONPATH=os.path.join(wt, "src"))
        env.pop("URLLIB3_VERIF_SIM", None)
        demo = os.path.join(d, "demo.py")
        if os.path.exists(demo):
            r = sh(["/venv/bin/python", demo], env=env, cwd=scratch, timeout=300)
            out["demo_with_change_rc"] = r.returncode
            out["demo_with_change_tail"] = r.stdout.strip()[-300:]
            env2 = dict(env, PYTHONPATH="/repo/src")
            r = sh(["/venv/bin/python", demo], env=env2, cwd=scratch, timeout=300)
            out["demo_clean_rc"] = r.returncode
        out["checks"] = {}
        for pid in [prop] + also:
            for seed in seeds:
                env3 = dict(os.environ, VERIF_REPO_SRC=os.path.join(wt, "src"), VERIF_OUT_DIR=os.path.join(scratch, "out"),
                            VERIF_EVIDENCE_DIR=os.path.join(scratch, "ev"), VERIF_SEED=seed)
                t0 = time.time()
                r = sh([os.path.join(VERIF, "check"), pid, "--tier", tier], env=env3, cwd=VERIF, timeout=7200)
                viol = re.findall(r"VIOLATION property=\S+ replay=\S+\n\s+class=(\S+) detail=(.*)", r.stdout)
                out["checks"][f"{pid}@seed{seed}"] = {
                    "rc": r.returncode, "wall_s": round(time.time() - t0, 1),
                    "violation_classes": [v[0] for v in viol], "details": [v[1][:200] for v in viol],
                    "last_line": r.stdout.strip().splitlines()[-1][:300] if r.stdout.strip() else "",
                }
                if r.returncode == 2:
                    out["checks"][f"{pid}@seed{seed}"]["harness_error"] = r.stdout[-1500:]
        out["caught"] = any(c["rc"] == 1 for c in out["checks"].values())
        return out
    finally:
        sh(["git", "-C", "/repo", "worktree", "remove", "--force", wt])
        shutil.rmtree(wt, ignore_errors=True)
        shutil.rmtree(scratch, ignore_errors=True)
        sh(["git", "-C", "/repo", "worktree", "prune"])


if __name__ == "__main__":
    print(json.dumps(main(), indent=1))
