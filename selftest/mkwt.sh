#!/bin/bash
# usage: selftest/mkwt.sh <dir>   — scratch git worktree of /repo HEAD (outside /repo and /verif), ready to import
set -e
git -C /repo worktree add --detach "$1" HEAD >/dev/null 2>&1
cp /repo/src/urllib3/_version.py "$1/src/urllib3/_version.py"   # generated file, not tracked
echo "$1"
