#!/venv/bin/python
"""Trial of one independently written behaviour-preserving refactoring (refactors/<id>/): every quick check must stay silent.

usage: selftest/refactor_trial.py <dir-with-patch.diff-and-demo.py> [Cnn,Cmm,...]     (default: all sixteen checks)

In a scratch worktree (removed afterwards): patch applies; the 682 stable pinned tests pass; demo.py prints the same transcript with and
without the change; then each quick check runs against the patched tree (VERIF_REPO_SRC) and must exit 0.  Prints one JSON object.
"""
import json, os, re, shutil, subprocess, sys, tempfile, time

HERE = os.path.dirname(os.path.abspath(__file__))
VERIF = os.path.dirname(HERE)
PROPS = "C01 C02 C03 C04 C05 C06 C07 C09 C10 C11 C12 C13 C15 C17 C18 C19".split()


def sh(cmd, **kw):
    return subprocess.run(cmd, stdout=subprocess.PIPE, stderr=subprocess.STDOUT, text=True, **kw)


def main():
    d = os.path.abspath(sys.argv[1])
    props = sys.argv[2].split(",") if len(sys.argv) > 2 else PROPS
    wt = tempfile.mkdtemp(prefix="refac_wt_", dir="/tmp")
    os.rmdir(wt)
    scratch = tempfile.mkdtemp(prefix="refac_out_", dir="/tmp")
    out = {"dir": d, "repo_head": sh(["git", "-C", "/repo", "rev-parse", "--short", "HEAD"]).stdout.strip()}
    try:
        base = os.environ.get("REFAC_BASE")  # a commit of /repo to build the scratch worktree from (default: HEAD)
        if base:
            assert sh(["git", "-C", "/repo", "worktree", "add", "--detach", wt, base]).returncode == 0
            shutil.copy("/repo/src/urllib3/_version.py", os.path.join(wt, "src/urllib3/_version.py"))
            out["repo_head"] = base
        else:
            assert sh([os.path.join(HERE, "mkwt.sh"), wt]).returncode == 0
        r = sh(["git", "-C", wt, "apply", os.path.join(d, "patch.diff")])
        out["patch_applies"] = r.returncode == 0
        if r.returncode != 0:
            out["error"] = r.stdout[-400:]
            return out
        st = sh(["git", "-C", wt, "diff", "--shortstat"]).stdout.strip()
        out["size"] = st
        r = sh([os.path.join(HERE, "run_pinned.py"), wt])
        out["pinned_ok"] = r.returncode == 0
        out["pinned"] = r.stdout.strip().splitlines()[-1] if r.returncode == 0 else r.stdout.strip()[-400:]
        demo = os.path.join(d, "demo.py")
        if os.path.exists(demo):
            a = sh(["/venv/bin/python", demo], env=dict(os.environ, PYTHONPATH=os.path.join(wt, "src")), cwd=scratch, timeout=600)
            b = sh(["/venv/bin/python", demo], env=dict(os.environ, PYTHONPATH="/repo/src"), cwd=scratch, timeout=600)
            out["demo_rc"] = [a.returncode, b.returncode]
            out["demo_transcripts_equal"] = a.stdout == b.stdout
        out["checks"] = {}
        for pid in props:
            env = dict(os.environ, VERIF_REPO_SRC=os.path.join(wt, "src"), VERIF_OUT_DIR=os.path.join(scratch, "out"), VERIF_EVIDENCE_DIR=os.path.join(scratch, "ev"), VERIF_SEED="1")
            t0 = time.time()
            r = sh([os.path.join(VERIF, "check"), pid], env=env, cwd=VERIF, timeout=3600)
            out["checks"][pid] = r.returncode
            if r.returncode != 0:
                out.setdefault("alarms", {})[pid] = [l[:300] for l in r.stdout.splitlines() if "VIOLATION" in l or "class=" in l or "HARNESS" in l][:8]
                # keep the replay files of alarms for the analysis
                src = os.path.join(scratch, "out")
                if os.path.isdir(src):
                    dst = os.path.join("/tmp", "refac_alarm_" + os.path.basename(d) + "_" + pid)
                    shutil.rmtree(dst, ignore_errors=True)
                    shutil.copytree(src, dst)
        out["silent"] = all(v == 0 for v in out["checks"].values())
        return out
    finally:
        sh(["git", "-C", "/repo", "worktree", "remove", "--force", wt])
        shutil.rmtree(wt, ignore_errors=True)
        shutil.rmtree(scratch, ignore_errors=True)
        sh(["git", "-C", "/repo", "worktree", "prune"])


if __name__ == "__main__":
    print(json.dumps(main(), indent=1))
