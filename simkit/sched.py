"""simsched: deterministic thread scheduler.

Real threading.Thread objects, but exactly one runs at any moment (baton passing on
per-task semaphores).  Pre-emption points: every sys.monitoring LINE event inside
the instrumented urllib3 code objects, every SimLifoQueue/SimRLock operation and
every SimSocket I/O call.  At each point the schedule (seeded strategy, or an
explicit decision list in a replay) says whether another task runs.  Blocking is
virtual: a task waiting with a timeout is woken when the simulated clock -- which
only moves when nobody can run -- reaches its deadline; if nobody can run and no
deadline exists the verdict is *deadlock*."""
from __future__ import annotations

import random
import sys
import threading

from . import world as W

TOOL_ID = 3
_MON = {"installed": False, "codes": 0}
_ACTIVE: "Scheduler | None" = None
_TLS = threading.local()


class SimDeadlock(BaseException):
    """Raised inside a task that can never run again (all tasks blocked, no deadline)."""


class TaskAbort(BaseException):
    """Raised inside parked tasks when the run is torn down (step cap, harness stop)."""


def _line_cb(code, line):
    s = _ACTIVE
    if s is None:
        # no scheduler is running (single-threaded strata of the same check): switch this location off until the next
        # Scheduler calls restart_events() -- otherwise every line of urllib3 pays for a callback in every run
        return sys.monitoring.DISABLE
    t = getattr(_TLS, "task", None)
    if t is None or t.sched is not s:
        return None
    s.yield_point(code.co_name, line)
    return None


def instrument(modules) -> int:
    """Enable LINE events on every code object of the given modules (once per process)."""
    mon = sys.monitoring
    if not _MON["installed"]:
        mon.use_tool_id(TOOL_ID, "simsched")
        mon.register_callback(TOOL_ID, mon.events.LINE, _line_cb)
        _MON["installed"] = True
    seen = set()

    def walk(code):
        if code in seen:
            return
        seen.add(code)
        mon.set_local_events(TOOL_ID, code, mon.events.LINE)
        for c in code.co_consts:
            if hasattr(c, "co_code"):
                walk(c)

    import inspect

    for m in modules:
        for obj in list(vars(m).values()):
            if inspect.isfunction(obj) and obj.__module__ == m.__name__:
                walk(obj.__code__)
            elif inspect.isclass(obj) and obj.__module__ == m.__name__:
                for v in vars(obj).values():
                    f = v
                    if isinstance(v, (staticmethod, classmethod)):
                        f = v.__func__
                    if isinstance(v, property):
                        for g in (v.fget, v.fset, v.fdel):
                            if g is not None and hasattr(g, "__code__"):
                                walk(g.__code__)
                        continue
                    if inspect.isfunction(f):
                        walk(f.__code__)
    _MON["codes"] += len(seen)
    return len(seen)


class Task:
    __slots__ = ("name", "idx", "fn", "thread", "sem", "state", "wait_key", "deadline", "woken_by_notify", "result", "error", "sched", "abort", "prio")

    def __init__(self, sched, name, idx, fn):
        self.sched = sched
        self.name = name
        self.idx = idx
        self.fn = fn
        self.sem = threading.Semaphore(0)
        self.state = "ready"
        self.wait_key = None
        self.deadline = None
        self.woken_by_notify = False
        self.result = None
        self.error = None
        self.abort = None
        self.prio = 0
        self.thread = None


class Scheduler:
    MAX_STEPS = 300000

    def __init__(self, world: W.World, schedule: dict) -> None:
        self.world = world
        world.sched = self
        self.tasks: list[Task] = []
        self.cur: Task | None = None
        self.steps = 0
        self.switch_log: list = []  # every non-default choice (step, task name)
        self.trace: list = []  # (task, location) at every context switch
        self.verdict = None
        self.main_sem = threading.Semaphore(0)
        self.spec = schedule or {"strategy": "uniform", "p": 0.1, "seed": 0}
        self.rng = random.Random(self.spec.get("seed", 0))
        self.decisions = None
        if "decisions" in self.spec:
            self.decisions = {int(s): n for s, n in self.spec["decisions"]}
        self.strategy = self.spec.get("strategy", "uniform")
        self.p = float(self.spec.get("p", 0.1))
        self.pct_points: set = set()
        self.focus = self.spec.get("focus")
        self.preemptions = 0

    # ---- setup
    def spawn(self, name: str, fn) -> Task:
        t = Task(self, name, len(self.tasks), fn)
        self.tasks.append(t)
        return t

    def now(self) -> float:
        return self.world.clock.now

    def current_task(self) -> str:
        t = getattr(_TLS, "task", None)
        return t.name if t is not None else "main"

    # ---- the run
    def run(self) -> None:
        global _ACTIVE
        if self.strategy == "pct":
            d = int(self.spec.get("d", 2))
            est = int(self.spec.get("steps", 1500))
            self.pct_points = set(self.rng.sample(range(1, max(est, d + 2)), d))
            order = list(range(len(self.tasks)))
            self.rng.shuffle(order)
            for t, p in zip(self.tasks, order):
                t.prio = p + d + 1
        for t in self.tasks:
            t.thread = threading.Thread(target=self._body, args=(t,), name=f"sim-{t.name}", daemon=True)
            t.thread.start()
        _ACTIVE = self
        if _MON["installed"]:
            sys.monitoring.restart_events()  # locations switched off by runs without a scheduler fire again
        try:
            first = self._pick_on_block()
            if first is not None:
                self._resume(first)
                self.main_sem.acquire()
        finally:
            _ACTIVE = None
            self.world.sched = None
        for t in self.tasks:
            t.thread.join(timeout=10)
            if t.thread.is_alive():
                raise W.SeamError(f"task {t.name} did not terminate")

    def _body(self, t: Task) -> None:
        _TLS.task = t
        t.sem.acquire()
        try:
            if t.abort is not None:
                raise t.abort
            t.result = t.fn()
        except BaseException as e:  # noqa: BLE001 - recorded, judged by the property
            t.error = e
        finally:
            t.state = "done"
            _TLS.task = None
            self._task_finished(t)

    def _task_finished(self, t: Task) -> None:
        nxt = self._pick_on_block()
        if nxt is not None:
            self._resume(nxt)
        elif all(x.state == "done" for x in self.tasks):
            self.main_sem.release()
        else:
            self._nobody_runnable()

    def _resume(self, t: Task) -> None:
        t.state = "running"
        self.cur = t
        t.sem.release()

    def _park(self, t: Task) -> None:
        t.sem.acquire()
        if t.abort is not None:
            e = t.abort
            t.abort = None
            raise e

    # ---- choices
    def _ready(self):
        return [t for t in self.tasks if t.state == "ready"]

    def _pick_on_block(self):
        """Who runs when the current task cannot: default = lowest-numbered ready task."""
        ready = self._ready()
        while not ready:
            if not self._advance_clock():
                return None
            ready = self._ready()
        self.steps += 1
        default = ready[0]
        choice = default
        if self.decisions is not None:
            name = self.decisions.get(self.steps)
            if name is not None:
                choice = next((t for t in ready if t.name == name), default)
        elif self.strategy == "pct":
            choice = max(ready, key=lambda t: t.prio)
        else:
            choice = self.rng.choice(ready)
        if choice is not default:
            self.switch_log.append((self.steps, choice.name))
        return choice

    def _advance_clock(self) -> bool:
        waiting = [t for t in self.tasks if t.state == "blocked" and t.deadline is not None]
        if not waiting:
            return False
        t = min(waiting, key=lambda x: (x.deadline, x.idx))
        if t.deadline > self.world.clock.now:
            self.world.clock.now = t.deadline
        for x in waiting:
            if x.deadline <= self.world.clock.now:
                x.state = "ready"
                x.woken_by_notify = False
                x.wait_key = None
                x.deadline = None
        return True

    def _nobody_runnable(self) -> None:
        """All remaining tasks are blocked without a deadline: deadlock.  Tear down."""
        self.verdict = self.verdict or "deadlock"
        blocked = [t for t in self.tasks if t.state == "blocked"]
        if not blocked:
            self.main_sem.release()
            return
        t = blocked[0]
        t.abort = SimDeadlock(f"deadlock: {[(x.name, x.wait_key) for x in blocked]}")
        t.state = "running"
        self.cur = t
        t.sem.release()

    # ---- scheduling points (called from task threads)
    def yield_point(self, where, line=None) -> None:
        t = getattr(_TLS, "task", None)
        if t is None or t is not self.cur:
            return
        self.steps += 1
        if self.steps > self.MAX_STEPS:
            self.verdict = self.verdict or "step_limit"
            raise W.StepLimit("scheduler steps")
        others = self._ready()
        if not others:
            return
        switch_to = None
        if self.decisions is not None:
            name = self.decisions.get(self.steps)
            if name is not None and name != t.name:
                switch_to = next((x for x in others if x.name == name), None)
        elif self.strategy == "pct":
            if self.steps in self.pct_points:
                t.prio = len(self.pct_points) - sorted(self.pct_points).index(self.steps)  # drop below everyone
            best = max(others, key=lambda x: x.prio)
            if best.prio > t.prio:
                switch_to = best
        else:
            p = self.p
            if self.focus and isinstance(where, str) and not where.startswith(("io:", "q.", "lock.")) and where not in self.focus:
                p = p * 0.1
            if self.rng.random() < p:
                switch_to = self.rng.choice(others)
        if switch_to is None:
            return
        self.preemptions += 1
        self.switch_log.append((self.steps, switch_to.name))
        self.trace.append((t.name, where, line, switch_to.name))
        t.state = "ready"
        self._resume(switch_to)
        self._park(t)

    def wait(self, key, timeout) -> bool:
        """Block the current task on `key`; True if notified, False if timed out."""
        t = getattr(_TLS, "task", None)
        if t is None:
            raise W.SeamError("wait() outside a scheduled task")
        t.state = "blocked"
        t.wait_key = key
        t.deadline = None if timeout is None else self.world.clock.now + float(timeout)
        t.woken_by_notify = False
        self.trace.append((t.name, "block", key[0] if isinstance(key, tuple) else key, None))
        nxt = self._pick_on_block()
        if nxt is t:
            # it was this task's own deadline that expired first
            t.state = "running"
            self.cur = t
            return t.woken_by_notify
        if nxt is None:
            # nobody can ever run: deadlock -- this task is a victim too
            self.verdict = self.verdict or "deadlock"
            t.state = "running"
            self.cur = t
            for x in self.tasks:
                if x.state == "blocked" and x is not t:
                    pass
            raise SimDeadlock(f"deadlock: {[(x.name, x.wait_key) for x in self.tasks if x.state == 'blocked' or x is t]}")
        self._resume(nxt)
        self._park(t)
        return t.woken_by_notify

    def notify(self, key, all_: bool = False) -> None:
        for x in self.tasks:
            if x.state == "blocked" and x.wait_key == key:
                x.state = "ready"
                x.woken_by_notify = True
                x.wait_key = None
                x.deadline = None
                if not all_:
                    break

    def sleep(self, d: float) -> None:
        t = getattr(_TLS, "task", None)
        if t is None:
            self.world.clock.now += d
            return
        self.wait(("sleep", t.idx), d)

    def block_forever(self, label: str) -> None:
        t = getattr(_TLS, "task", None)
        self.wait(("never", label, t.idx if t else -1), None)
        raise W.SimHang(label)

    def signature(self) -> int:
        return hash(tuple(self.trace))
