"""One-off generator of the throw-away PKI committed under simkit/pki/.
Fixed files (instead of per-process trustme CAs) keep every TLS flight the same
length in every process, which the determinism self-test relies on.
Run: /venv/bin/python simkit/pki_gen.py
"""
import datetime
import ipaddress
import os

from cryptography import x509
from cryptography.hazmat.primitives import hashes, serialization
from cryptography.hazmat.primitives.asymmetric import rsa
from cryptography.x509.oid import NameOID

HERE = os.path.join(os.path.dirname(os.path.abspath(__file__)), "pki")
NB = datetime.datetime(2020, 1, 1)
NA = datetime.datetime(2099, 1, 1)


def key():
    return rsa.generate_private_key(public_exponent=65537, key_size=2048)


def name(cn):
    return x509.Name([x509.NameAttribute(NameOID.ORGANIZATION_NAME, "verif sim"), x509.NameAttribute(NameOID.COMMON_NAME, cn)])


def make_ca(cn, serial):
    k = key()
    cert = (
        x509.CertificateBuilder()
        .subject_name(name(cn))
        .issuer_name(name(cn))
        .public_key(k.public_key())
        .serial_number(serial)
        .not_valid_before(NB)
        .not_valid_after(NA)
        .add_extension(x509.BasicConstraints(ca=True, path_length=1), critical=True)
        .add_extension(x509.KeyUsage(True, False, False, False, False, True, True, False, False), critical=True)
        .add_extension(x509.SubjectKeyIdentifier.from_public_key(k.public_key()), critical=False)
        .sign(k, hashes.SHA256())
    )
    return k, cert


def make_leaf(ca_k, ca_cert, cn, dns=(), ips=(), serial=1000):
    k = key()
    b = (
        x509.CertificateBuilder()
        .subject_name(name(cn))
        .issuer_name(ca_cert.subject)
        .public_key(k.public_key())
        .serial_number(serial)
        .not_valid_before(NB)
        .not_valid_after(NA)
        .add_extension(x509.BasicConstraints(ca=False, path_length=None), critical=True)
        .add_extension(x509.ExtendedKeyUsage([x509.oid.ExtendedKeyUsageOID.SERVER_AUTH, x509.oid.ExtendedKeyUsageOID.CLIENT_AUTH]), critical=False)
        .add_extension(x509.AuthorityKeyIdentifier.from_issuer_public_key(ca_k.public_key()), critical=False)
    )
    sans = [x509.DNSName(d) for d in dns] + [x509.IPAddress(ipaddress.ip_address(i)) for i in ips]
    if sans:
        b = b.add_extension(x509.SubjectAlternativeName(sans), critical=False)
    return k, b.sign(ca_k, hashes.SHA256())


def pem_cert(c):
    return c.public_bytes(serialization.Encoding.PEM)


def pem_key(k):
    return k.private_bytes(serialization.Encoding.PEM, serialization.PrivateFormat.TraditionalOpenSSL, serialization.NoEncryption())


ANY_DNS = ["origin.test", "a.test", "b.test", "c.test", "h.test", "proxy.test", "*.wild.test", "xn--bcher-kva.test", "example.test"]
ANY_IPS = ["10.0.0.5", "10.0.0.6", "fd00::5", "fe80::1"]

LEAVES = {
    "origin": dict(cn="origin.test", dns=["origin.test"]),
    "wild": dict(cn="wild", dns=["*.wild.test"]),
    "other": dict(cn="other.test", dns=["other.test"]),
    "ip4": dict(cn="ip4", ips=["10.0.0.5"]),
    "ip6": dict(cn="ip6", ips=["fd00::5"]),
    "cnonly": dict(cn="origin.test"),
    "any": dict(cn="any", dns=ANY_DNS, ips=ANY_IPS),
    "proxy": dict(cn="proxy.test", dns=["proxy.test"]),
    "client": dict(cn="client", dns=["client.test"]),
    # an IP address spelled out in a dNSName entry (and no iPAddress entry): never a match for the IP host (RFC 6125 / 9110)
    "ipdns4": dict(cn="ipdns4", dns=["10.0.0.5"]),
}

if __name__ == "__main__":
    os.makedirs(HERE, exist_ok=True)
    serial = 0x1000
    for caname in ("good", "bad"):
        ck, cc = make_ca(f"verif sim CA {caname}", 0x100 + (caname == "bad"))
        open(os.path.join(HERE, f"ca_{caname}.pem"), "wb").write(pem_cert(cc))
        open(os.path.join(HERE, f"ca_{caname}.key"), "wb").write(pem_key(ck))  # (kept so that leaves can be added without re-issuing everything)
        for lname, spec in LEAVES.items():
            serial += 1
            k, c = make_leaf(ck, cc, spec["cn"], spec.get("dns", ()), spec.get("ips", ()), serial)
            fn = lname if caname == "good" else "bad_" + lname
            open(os.path.join(HERE, fn + ".pem"), "wb").write(pem_cert(c) + pem_key(k))
            open(os.path.join(HERE, fn + ".der"), "wb").write(c.public_bytes(serialization.Encoding.DER))
    open(os.path.join(HERE, "ca_both.pem"), "wb").write(open(os.path.join(HERE, "ca_good.pem"), "rb").read() + open(os.path.join(HERE, "ca_bad.pem"), "rb").read())
    print("ok", sorted(os.listdir(HERE)))
