"""In-memory TLS: client seam (ssl.SSLContext.wrap_socket -> urllib3's own
SSLTransport over a SimSocket) and the server-side TlsPeer observer.

OpenSSL itself (handshake, chain building, hostname verification, alerts) is real.
"""
from __future__ import annotations

import os
import ssl

from . import world as W

PKI = os.path.join(os.path.dirname(os.path.abspath(__file__)), "pki")


def pki(name: str) -> str:
    return os.path.join(PKI, name)


CA_GOOD = pki("ca_good.pem")
CA_BAD = pki("ca_bad.pem")

_ORIG_WRAP = ssl.SSLContext.wrap_socket
_server_ctx_cache: dict = {}


def der(name: str) -> bytes:
    with open(pki(name + ".der"), "rb") as f:
        return f.read()


def server_ctx(cert: str, alpn=None, client_ca=None) -> ssl.SSLContext:
    key = (cert, tuple(alpn or ()), client_ca)
    ctx = _server_ctx_cache.get(key)
    if ctx is None:
        ctx = ssl.SSLContext(ssl.PROTOCOL_TLS_SERVER)
        ctx.load_cert_chain(pki(cert + ".pem"))
        ctx.options |= ssl.OP_NO_TICKET
        ctx.num_tickets = 0
        if alpn:
            ctx.set_alpn_protocols(list(alpn))
        if client_ca:
            ctx.verify_mode = ssl.CERT_REQUIRED
            ctx.load_verify_locations(client_ca)
        _server_ctx_cache[key] = ctx
    return ctx


def install() -> None:
    from urllib3.util.ssltransport import SSLTransport

    class SimSSLTransport(SSLTransport):
        """urllib3's SSLTransport plus the two attributes a real SSLSocket has and a
        nested transport needs from its carrier (`_io_refs`, `_closed`)."""

        @property
        def _io_refs(self):
            return self.socket._io_refs

        @_io_refs.setter
        def _io_refs(self, v):
            self.socket._io_refs = v

        @property
        def _closed(self):
            return self.socket._closed

        def pending(self):
            """ssl.SSLSocket.pending(): decrypted bytes already buffered (code that feature-tests the TLS socket sees the same
            surface as with the real class)."""
            return self.sslobj.pending()

        def __init__(self, sock, ctx, server_hostname=None, suppress_ragged_eofs=True):
            base = W._base_socket(sock)
            base.tags["opaque"] = True
            w = base.world
            w.tls_log.append(("client_wrap", base.sid, server_hostname, int(ctx.verify_mode), bool(ctx.check_hostname)))
            w.log("tls_wrap", base, (server_hostname, int(ctx.verify_mode), bool(ctx.check_hostname)))
            self._sim_base = base
            super().__init__(sock, ctx, server_hostname, suppress_ragged_eofs)
            w.log("tls_established", base, self.sslobj.version())

    W.SimSSLTransport = SimSSLTransport

    def wrap_socket(self, sock, server_side=False, do_handshake_on_connect=True, suppress_ragged_eofs=True, server_hostname=None, session=None):
        base = W._base_socket(sock)
        if isinstance(base, W.SimSocket):
            if server_side:
                raise W.SeamError("server-side wrap_socket of a SimSocket")
            return SimSSLTransport(sock, self, server_hostname, suppress_ragged_eofs)
        if W._CURRENT is not None:
            raise W.SeamError(f"real socket {sock!r} reached ssl.wrap_socket inside a simulation")
        return _ORIG_WRAP(self, sock, server_side, do_handshake_on_connect, suppress_ragged_eofs, server_hostname, session)

    ssl.SSLContext.wrap_socket = wrap_socket


class _TlsChannel:
    """What an inner peer sees of a TLS-protected connection."""

    def __init__(self, tp: "TlsPeer") -> None:
        self.tp = tp
        self.world = tp.world
        self.sid = tp.chan.sid
        self.tags = tp.chan.tags

    def peer_push(self, data: bytes, delay: float = 0.0, whole: bool = False, stray: bool = False) -> None:
        self.tp.push_plain(data, delay, stray)

    def peer_eof(self, delay: float = 0.0) -> None:
        try:
            self.tp.obj.unwrap()
        except ssl.SSLError:
            pass
        self.tp.flush(delay)
        self.tp.chan.peer_eof(delay)

    def peer_rst(self, delay: float = 0.0) -> None:
        self.tp.chan.peer_rst(delay)


class TlsPeer:
    """Server side of a TLS connection; records SNI, handshake completion and every
    plaintext byte, and hands the plaintext to an inner peer."""

    def __init__(self, world, chan, inner_factory, cert: str = "origin", name: str = "tls", alpn=None) -> None:
        self.world = world
        self.chan = chan
        self.name = name
        self.cert = cert
        self.ctx = server_ctx(cert, alpn)
        self.inc = ssl.MemoryBIO()
        self.out = ssl.MemoryBIO()
        self.obj = self.ctx.wrap_bio(self.inc, self.out, server_side=True)
        self.handshook = False
        self.failed = None
        self.sni = None
        self.plain_in = bytearray()
        self.inner = inner_factory(world, _TlsChannel(self))
        world.tls_log.append(("server_accept", chan.sid, name, cert))

    def _sni(self, sslobj, servername, ctx):
        self.sni = servername
        self.world.tls_log.append(("sni", self.chan.sid, self.name, servername))
        return None

    def flush(self, delay: float = 0.0, stray: bool = False) -> None:
        buf = self.out.read()
        if buf:
            self.chan.peer_push(buf, delay, stray=stray)

    def push_plain(self, data: bytes, delay: float = 0.0, stray: bool = False) -> None:
        if not self.handshook:
            raise W.SeamError("plaintext push before the handshake completed")
        mv = memoryview(data)
        while mv:
            n = self.obj.write(mv[:16384])
            mv = mv[n:]
        self.flush(delay, stray)

    def on_data(self, data: bytes) -> None:
        if self.failed:
            return
        self.inc.write(data)
        w = self.world
        if not self.handshook:
            self.ctx.sni_callback = self._sni
            try:
                self.obj.do_handshake()
                self.handshook = True
                w.tls_log.append(("handshake_done", self.chan.sid, self.name, self.sni))
                w.log("tls_server_handshake_done", None, (self.name, self.sni))
            except ssl.SSLWantReadError:
                pass
            except ssl.SSLError as e:
                self.failed = e.reason or str(e)
                w.tls_log.append(("handshake_failed", self.chan.sid, self.name, self.failed))
                w.log("tls_server_handshake_failed", None, (self.name, self.failed))
                self.flush()
                self.chan.peer_eof()
                return
            finally:
                self.ctx.sni_callback = None
            self.flush()
        if self.handshook:
            while True:
                try:
                    d = self.obj.read(65536)
                except ssl.SSLWantReadError:
                    break
                except ssl.SSLZeroReturnError:
                    w.tls_log.append(("close_notify", self.chan.sid, self.name))
                    break
                except ssl.SSLError as e:
                    self.failed = e.reason or str(e)
                    w.tls_log.append(("alert", self.chan.sid, self.name, self.failed))
                    break
                if not d:
                    break
                self.plain_in += d
                w.tls_log.append(("plain_in", self.chan.sid, self.name, len(d)))
                self.inner.on_data(d)
            self.flush()

    def on_client_close(self) -> None:
        self.inner.on_client_close()
