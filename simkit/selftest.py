"""Self-tests of the simulator: cross-process determinism.

For every claimed property a sample of scenario indices is executed in several
fresh interpreters started with different PYTHONHASHSEED values; every run's event
log digest and verdict must agree.  (In-process double runs are part of every check
-- 'determinism_resample' in the evidence.)"""
from __future__ import annotations

import hashlib
import json
import os
import subprocess
import sys
import time

from . import runner


def digests(pid: str, n: int, seed: int, lo: int = 0) -> int:
    from . import world as W

    W.install_seams()
    mod = runner.load_prop(pid)
    if hasattr(mod, "warmup"):
        mod.warmup()
    for k in range(lo, lo + n):
        h = hashlib.sha256()
        cnt = 0
        for sc in mod.cases(seed, k, "quick"):
            res = runner.run_guarded(mod, sc)
            h.update(res.digest.encode())
            h.update(repr(sorted(res.classes())).encode())
            cnt += 1
            if cnt >= 40:
                break
        print(f"{k} {cnt} {h.hexdigest()[:16]}")
    return 0


def main(opts) -> int:
    props = (opts.get("props") or ",".join(runner.CLAIMED)).split(",")
    n = int(opts.get("n", 120))
    seed = int(os.environ.get("VERIF_SEED", "1") or 1)
    hashseeds = ["0", "1", "12345", "random"]
    bad = 0
    t0 = time.time()
    summary = {}
    for pid in props:
        outs = []
        procs = []
        for hs in hashseeds:
            env = dict(os.environ, PYTHONHASHSEED=hs)
            procs.append(subprocess.Popen([sys.executable, os.path.join(runner.VERIF, "simkit", "main.py"), "digests", pid, "--n", str(n), "--seed", str(seed)], stdout=subprocess.PIPE, stderr=subprocess.PIPE, text=True, env=env))
        for p in procs:
            o, e = p.communicate(timeout=900)
            if p.returncode != 0:
                print(f"HARNESS-ERROR selftest {pid}: digest run failed: {e[-800:]}")
                return 2
            outs.append(o)
        same = all(o == outs[0] for o in outs)
        lines = outs[0].strip().splitlines()
        summary[pid] = {"indices": len(lines), "runs": sum(int(l.split()[1]) for l in lines), "interpreters": len(hashseeds), "identical": same}
        print(f"selftest {pid}: {len(lines)} indices x {len(hashseeds)} fresh interpreters (PYTHONHASHSEED {','.join(hashseeds)}): {'identical' if same else 'DIVERGED'}")
        if not same:
            bad += 1
            for a, b in zip(outs[0].splitlines(), outs[1].splitlines()):
                if a != b:
                    print("   first difference:", a, "|", b)
                    break
    with open(os.path.join(runner.VERIF, "selftest", "determinism.json"), "w") as f:
        json.dump({"seed": seed, "n": n, "wall_s": round(time.time() - t0, 1), "results": summary}, f, indent=1)
    if bad:
        print(f"HARNESS-ERROR nondeterministic: {bad} properties diverged across interpreters")
        return 2
    return 0
