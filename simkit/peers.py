"""Reactive peer models: an HTTP/1.1 origin, a forwarding/tunnelling proxy.

Peers run synchronously inside SimSocket.sendall().  They are tolerant readers (so
a run keeps going) that record every request exactly as received; strict judgement
of the bytes is the job of simkit.httpwire.
"""
from __future__ import annotations

import binascii


class Req:
    __slots__ = ("idx", "sid", "peer", "method", "target", "version", "headers", "body", "raw_head", "framing", "t", "via_tls", "malformed", "seq")

    def __init__(self):
        self.malformed = None
        self.body = b""

    def header(self, name: str, default=None):
        n = name.lower()
        for k, v in self.headers:
            if k.lower() == n:
                return v
        return default

    def header_all(self, name: str):
        n = name.lower()
        return [v for k, v in self.headers if k.lower() == n]

    def brief(self):
        return {"peer": self.peer, "sid": self.sid, "method": self.method, "target": self.target, "headers": self.headers, "body_len": len(self.body)}


def _chunked(body: bytes, sizes=None, ext: str = "") -> bytes:
    out = bytearray()
    pos = 0
    sizes = list(sizes or [])
    i = 0
    while pos < len(body):
        n = sizes[i % len(sizes)] if sizes else len(body) - pos
        n = max(1, min(n, len(body) - pos))
        out += b"%x%s\r\n" % (n, ext.encode())
        out += body[pos : pos + n] + b"\r\n"
        pos += n
        i += 1
    out += b"0\r\n\r\n"
    return bytes(out)


EMBEDDED_RESPONSE = b"HTTP/1.1 200 OK\r\nX-Forged: 1\r\nContent-Length: 9\r\n\r\n[FORGED!]"


def build_response(spec: dict, req: Req | None, idx: int) -> tuple[bytes, bool, bytes]:
    """Serialise a scripted response.  Returns (bytes, keepalive, body)."""
    if spec.get("k") == "raw":
        data = spec["bytes"] if "bytes" in spec else binascii.unhexlify(spec["hex"])
        return data, spec.get("end", "keep") == "keep", b""
    status = int(spec.get("status", 200))
    reason = spec.get("reason", "OK")
    body = spec.get("body", None)
    if isinstance(body, dict):  # {"tag": n}: body names the request it answers
        tgt = req.target if req is not None else "?"
        emb = body.get("embed")
        body = (f"[{req.method if req else '?'} {tgt} #{idx}]" * int(body.get("tag", 1))).encode()
        if emb:  # the tail of this body is itself a well-formed HTTP response (a batch / message-http style payload)
            body += EMBEDDED_RESPONSE
    elif body is None:
        body = f"[{req.method if req else '?'} {req.target if req else '?'} #{idx}]".encode() if spec.get("autobody", True) else b""
    elif isinstance(body, str):
        body = body.encode("latin-1")
    if "body_hex" in spec:
        body = binascii.unhexlify(spec["body_hex"])
    bodyless = status in (204, 304) or 100 <= status < 200 or (req is not None and req.method == "HEAD")
    framing = spec.get("framing", "cl")
    keepalive = spec.get("keepalive", True)
    version = spec.get("version", "HTTP/1.1")
    lines = [f"{version} {status} {reason}".encode("latin-1")]
    for k, v in spec.get("headers") or []:
        if req is not None and "{target}" in str(v):
            v = str(v).replace("{target}", req.target)  # e.g. a redirect back to the same resource
        lines.append(f"{k}: {v}".encode("latin-1"))
    payload = b""
    if bodyless and not spec.get("force_body"):
        if framing == "cl" and spec.get("bodyless_cl", False):
            lines.append(b"Content-Length: %d" % len(body))
    elif framing == "cl":
        lines.append(b"Content-Length: %d" % (len(body) + int(spec.get("cl_excess", 0))))
        payload = body
    elif framing == "chunked":
        lines.append(b"Transfer-Encoding: chunked")
        payload = _chunked(body, spec.get("chunks"), spec.get("chunk_ext", ""))
    elif framing == "close":
        payload = body
        keepalive = False
    elif framing == "none":
        payload = b""
    if not keepalive:
        lines.append(b"Connection: close")
    elif version == "HTTP/1.0":
        lines.append(b"Connection: keep-alive")
    data = b"\r\n".join(lines) + b"\r\n\r\n" + payload
    return data, keepalive, (b"" if bodyless and not spec.get("force_body") else body)


class HttpPeer:
    """HTTP/1.1 server model.  role='origin' answers origin-form requests;
    role='proxy' additionally understands CONNECT (tunnel to an inner peer chosen by
    world.tunnel_factory) and absolute-form forwarding."""

    def __init__(self, world, chan, name: str = "origin", role: str = "origin", via_tls: bool = False) -> None:
        self.world = world
        self.chan = chan
        self.name = name
        self.role = role
        self.via_tls = via_tls
        self.buf = bytearray()
        self.state = "head"
        self.cur: Req | None = None
        self.tunnel = None
        self.dead = False
        self.served = 0
        self.client_closed = False

    # -- parsing (tolerant)
    def on_data(self, data: bytes) -> None:
        if self.tunnel is not None:
            self.tunnel.on_data(data)
            return
        if self.dead:
            return
        self.buf += data
        while not self.dead and self.tunnel is None:
            if self.state == "head":
                i = self.buf.find(b"\r\n\r\n")
                if i < 0:
                    return
                head = bytes(self.buf[: i + 4])
                del self.buf[: i + 4]
                self.cur = self._parse_head(head)
                self.state = "body"
                if self.cur.method == "CONNECT" and self.role == "proxy":
                    self._finish()
                    continue
                early = self.world.sc.get("early") if self.world.sc else None
                if early and isinstance(self.cur.framing, int) and self.cur.framing > 0 and not self.world.tags.get("early_done"):
                    # a server that answers as soon as it has seen the header block (e.g. 413 to an upload it does not want)
                    # and keeps the connection: the body bytes that still arrive are consumed as that request's body
                    self.world.tags["early_done"] = True
                    self.early_answered = True
                    self.world.log("early_response", None, (self.name, self.chan.sid, early.get("status", 413)))
                    data, keep, _b = build_response({"k": "resp", "status": int(early.get("status", 413)), "reason": "Too Large", "body": "no"}, self.cur, -1)
                    self.chan.peer_push(data, 0.0)
            if self.state == "body":
                r = self.cur
                if r.framing is None:
                    self._finish()
                elif r.framing == "chunked":
                    res = _dechunk(self.buf)
                    if res is None:
                        return
                    body, used = res
                    r.body = body
                    del self.buf[:used]
                    self._finish()
                else:
                    n = r.framing
                    if len(self.buf) < n:
                        return
                    r.body = bytes(self.buf[:n])
                    del self.buf[:n]
                    self._finish()
        if self.tunnel is not None and self.buf:
            rest = bytes(self.buf)
            self.buf.clear()
            self.tunnel.on_data(rest)

    def _parse_head(self, head: bytes) -> Req:
        r = Req()
        r.raw_head = head
        r.sid = self.chan.sid
        r.peer = self.name
        r.via_tls = self.via_tls
        r.t = self.world.now
        lines = head[:-4].split(b"\r\n")
        rl = lines[0].decode("latin-1")
        parts = rl.split(" ")
        if len(parts) == 3 and parts[2].startswith("HTTP/"):
            r.method, r.target, r.version = parts
        else:
            r.method, r.target, r.version = (parts[0] if parts else ""), " ".join(parts[1:-1]), (parts[-1] if len(parts) > 1 else "")
            r.malformed = "request-line"
        hdrs = []
        for ln in lines[1:]:
            s = ln.decode("latin-1")
            if s[:1] in (" ", "\t") and hdrs:
                hdrs[-1] = (hdrs[-1][0], hdrs[-1][1] + "\r\n" + s)
                continue
            k, sep, v = s.partition(":")
            if not sep:
                r.malformed = r.malformed or "header-line"
            hdrs.append((k, v.strip(" \t")))
        r.headers = hdrs
        te = [v for k, v in hdrs if k.lower() == "transfer-encoding"]
        cl = [v for k, v in hdrs if k.lower() == "content-length"]
        r.framing = None
        if te and "chunked" in te[-1].lower():
            r.framing = "chunked"
        elif cl:
            try:
                r.framing = int(cl[0].split(",")[0].strip())
            except ValueError:
                r.malformed = r.malformed or "content-length"
        return r

    # -- one complete request
    def _finish(self) -> None:
        w = self.world
        r = self.cur
        self.cur = None
        self.state = "head"
        r.idx = len(w.requests)
        r.seq = len(w.events)
        w.requests.append(r)
        w.log("request", None, (self.name, r.sid, r.method, r.target, len(r.body)))
        if r.method == "CONNECT" and self.role == "proxy":
            spec = w.next_connect(self, r)
            if not (spec.get("k", "resp") == "resp" and int(spec.get("status", 200)) == 200):
                w.attempts.append(("other", "connect-refused", self.chan.sid, "CONNECT", spec.get("status")))
            self._connect(spec, r)
            return
        if getattr(self, "early_answered", False):
            self.early_answered = False  # this request was answered before its body arrived
            return
        spec = w.next_exchange(self, r)
        self.respond(spec, r)

    def respond(self, spec: dict, r: Req | None) -> None:
        w = self.world
        chan = self.chan
        k = spec.get("k", "resp")
        delay = float(spec.get("delay", 0.0))
        w.log("respond", None, (self.name, chan.sid, k, spec.get("status", 200) if k == "resp" else None))
        category = exchange_category(spec)
        if k in ("resp", "raw"):
            data, keep, body = build_response(spec, r, r.idx if r is not None else -1)
            if spec.get("cut_body") is not None:  # cut point counted from the first payload byte
                spec = dict(spec)
                spec["cut"] = data.find(b"\r\n\r\n") + 4 + int(spec.pop("cut_body"))
            if spec.get("cut") is not None and int(spec["cut"]) >= len(data):
                category = "response"  # the cut point lies beyond the end: nothing was cut
                spec = {x: y for x, y in spec.items() if x != "cut"}
            if r is not None and r.method != "CONNECT":
                w.attempts.append((category, k, chan.sid, r.method, int(spec.get("status", 200)) if k == "resp" else None))
            if r is not None:
                w.answers[r.idx] = (int(spec.get("status", 200)) if k == "resp" else None, body, chan.sid, list(spec.get("interim") or []))
            cut = spec.get("cut")
            if cut is not None:
                data = data[: int(cut)]
                keep = False
                w.faults_fired["resp:cut"] += 1
                if r is not None:
                    chan.tags["unclean_after"] = r.idx  # this exchange can no longer end cleanly on this connection
            pre = spec.get("interim")  # e.g. a 100/103 before the final response
            if pre:
                for st in pre:
                    chan.peer_push(f"HTTP/1.1 {st} Interim\r\n\r\n".encode(), delay)
            split = spec.get("split")  # [offset, extra delay]: the tail arrives later
            if spec.get("split_head") is not None:  # the header block arrives, the whole body later
                off = data.find(b"\r\n\r\n") + 4
                if 4 <= off < len(data):
                    split = [off, float(spec["split_head"])]
            if spec.get("split_embed") is not None:  # split exactly where the embedded message starts
                off = data.find(EMBEDDED_RESPONSE, data.find(b"\r\n\r\n") + 4)
                if off > 0:
                    split = [off, float(spec["split_embed"])]
            if split and 0 < int(split[0]) < len(data):
                chan.peer_push(data[: int(split[0])], delay)
                delay += float(split[1])
                chan.peer_push(data[int(split[0]) :], delay)
                w.faults_fired["resp:split_delay"] += 1
            else:
                chan.peer_push(data, delay)
            if cut is not None and isinstance(getattr(chan, "tags", None), dict) and "pushed" in chan.tags:
                chan.tags["unclean_at_byte"] = chan.tags["pushed"]  # everything up to here belongs to an exchange that was cut short
            stray = spec.get("stray")
            if stray:
                w.faults_fired["resp:stray"] += 1
                sd = float(spec.get("stray_delay", 0.0))
                chan.peer_push(_stray_bytes(stray), delay + sd, stray=True)
                if spec.get("stray2"):  # a second batch of unsolicited bytes, later than the first
                    chan.peer_push(_stray_bytes(spec["stray2"]), delay + sd + float(spec.get("stray2_delay", 1.0)), stray=True)
            end = spec.get("end")
            if end is None:
                end = "keep" if keep else "eof"
            if end == "eof":
                chan.peer_eof(delay + float(spec.get("close_delay", 0.0)))
                self.dead = True
            elif end == "rst":
                chan.peer_rst(delay + float(spec.get("close_delay", 0.0)))
                self.dead = True
                w.faults_fired["resp:rst"] += 1
            elif end == "stall":
                self.dead = True
                w.faults_fired["resp:stall"] += 1
            elif end == "idle_close":  # keep-alive answer, then the server closes idle
                chan.peer_eof(delay + float(spec.get("close_delay", 1.0)))
                self.dead = True
                w.faults_fired["resp:idle_close"] += 1
        elif k == "eof":
            if r is not None and r.method != "CONNECT":
                w.attempts.append((category, k, chan.sid, r.method, None))
            w.faults_fired["resp:eof"] += 1
            chan.peer_eof(delay)
            self.dead = True
        elif k == "rst":
            if r is not None and r.method != "CONNECT":
                w.attempts.append((category, k, chan.sid, r.method, None))
            w.faults_fired["resp:rst"] += 1
            chan.peer_rst(delay)
            self.dead = True
        elif k == "garbage":
            if r is not None and r.method != "CONNECT":
                w.attempts.append((category, k, chan.sid, r.method, None))
            w.faults_fired["resp:garbage"] += 1
            chan.peer_push(_stray_bytes(spec.get("data", "\x00\x01garbage\r\n\r\n")), delay)
            if spec.get("end", "eof") == "eof":
                chan.peer_eof(delay)
            self.dead = True
        elif k == "stall":
            if r is not None and r.method != "CONNECT":
                w.attempts.append((category, k, chan.sid, r.method, None))
            w.faults_fired["resp:stall"] += 1
            self.dead = True
        else:
            raise ValueError(f"unknown exchange kind {k}")
        self.served += 1

    def _connect(self, spec: dict, r: Req) -> None:
        w = self.world
        k = spec.get("k", "resp")
        if k != "resp":
            self.respond(spec, r)
            return
        status = int(spec.get("status", 200))
        if status != 200:
            s = dict(spec)
            s.setdefault("reason", "Denied")
            s.setdefault("body", "no tunnel")
            s.setdefault("keepalive", False)
            self.respond(s, r)
            return
        factory = getattr(w, "tunnel_factory", None)
        if factory is None:
            raise ValueError("CONNECT but the world has no tunnel_factory")
        hdrs = "".join(f"{k}: {v}\r\n" for k, v in spec.get("headers") or [])
        self.chan.peer_push(f"HTTP/1.1 200 Connection established\r\n{hdrs}\r\n".encode(), float(spec.get("delay", 0.0)))
        w.log("tunnel", None, (self.name, self.chan.sid, r.target))
        self.tunnel = factory(w, self.chan, r.target)
        if spec.get("end") == "eof_after_200":
            self.chan.peer_eof()

    def on_client_close(self) -> None:
        self.client_closed = True
        if self.tunnel is not None:
            self.tunnel.on_client_close()


def exchange_category(spec: dict) -> str:
    k = spec.get("k", "resp")
    if k in ("eof", "rst", "stall", "garbage"):
        return "read"
    if spec.get("cut") is not None or spec.get("cut_body") is not None:
        return "read"
    return "response"


def _stray_bytes(s) -> bytes:
    if isinstance(s, dict) and "hex" in s:
        return binascii.unhexlify(s["hex"])
    return s.encode("latin-1")


def _dechunk(buf: bytearray):
    """Tolerant chunked-body reader over a growing buffer: (body, consumed) or None."""
    pos = 0
    body = bytearray()
    while True:
        i = buf.find(b"\r\n", pos)
        if i < 0:
            return None
        line = bytes(buf[pos:i]).split(b";", 1)[0].strip()
        try:
            n = int(line, 16)
        except ValueError:
            n = 0
        pos = i + 2
        if n == 0:
            j = buf.find(b"\r\n", pos)  # (no trailers expected) final CRLF
            while True:
                if j < 0:
                    return None
                if j == pos:
                    return bytes(body), j + 2
                pos = j + 2
                j = buf.find(b"\r\n", pos)
        if len(buf) < pos + n + 2:
            return None
        body += buf[pos : pos + n]
        pos += n + 2


class H2Peer:
    """Server side of an HTTP/2 connection (real `h2` state machine with inbound
    validation off, so that whatever the client managed to encode is observed)."""

    def __init__(self, world, chan, name: str = "h2origin") -> None:
        import h2.config
        import h2.connection

        self.world = world
        self.chan = chan
        self.name = name
        cfg = h2.config.H2Configuration(client_side=False, validate_inbound_headers=False, normalize_inbound_headers=False, header_encoding=None)
        self.conn = h2.connection.H2Connection(config=cfg)
        self.conn.initiate_connection()
        self.started = False
        self.requests: list = []  # (stream id, [(name, value)], body)
        self.bodies: dict = {}
        self.errors: list = []

    def on_data(self, data: bytes) -> None:
        import h2.events
        import h2.exceptions

        if not self.started:
            self.started = True
            self.chan.peer_push(self.conn.data_to_send())
        try:
            events = self.conn.receive_data(data)
        except h2.exceptions.ProtocolError as e:
            self.errors.append(repr(e))
            self.world.log("h2_protocol_error", None, repr(e)[:80])
            out = self.conn.data_to_send()
            if out:
                self.chan.peer_push(out)
            self.chan.peer_eof()
            return
        for ev in events:
            if isinstance(ev, h2.events.RequestReceived):
                self.requests.append([ev.stream_id, [(bytes(k), bytes(v)) for k, v in ev.headers], b""])
                self.world.log("h2_request", None, (self.name, ev.stream_id, len(ev.headers)))
            elif isinstance(ev, h2.events.DataReceived):
                for r in self.requests:
                    if r[0] == ev.stream_id:
                        r[2] += ev.data
                self.conn.acknowledge_received_data(ev.flow_controlled_length, ev.stream_id)
            elif isinstance(ev, h2.events.StreamEnded):
                meth = next((r[1] for r in self.requests if r[0] == ev.stream_id), [])
                if (b":method", b"HEAD") in meth:
                    self.conn.send_headers(ev.stream_id, [(b":status", b"200")], end_stream=True)
                else:
                    self.conn.send_headers(ev.stream_id, [(b":status", b"200"), (b"content-length", b"2")])
                    self.conn.send_data(ev.stream_id, b"ok", end_stream=True)
        out = self.conn.data_to_send()
        if out:
            self.chan.peer_push(out)

    def on_client_close(self) -> None:
        pass
