"""simnet: the simulated world (virtual clock, DNS, TCP byte streams, readiness
polling) and the seams that put urllib3 on top of it.

Everything urllib3 could learn from the outside -- name resolution, whether a
connect succeeds and how long it takes, which bytes arrive in which pieces and
when, whether a socket is readable at checkout, what time it is, how long a sleep
lasted -- is answered from a `World` object that is a pure function of the
scenario.  All of urllib3, http.client, io.BufferedReader/socket.SocketIO, zlib,
zstandard and OpenSSL run unmodified above these seams.
"""
from __future__ import annotations

import collections
import errno
import hashlib
import io
import random
import socket as _real_socket
import sys

_REAL_TIMEOUT = _real_socket.timeout  # == TimeoutError on 3.10+


class SimInterrupt(KeyboardInterrupt):
    """The injected BaseException ("the user pressed ^C during this system call")."""


class SimHang(BaseException):
    """A blocking call that can never return (no timeout, nothing will arrive)."""


class SeamError(BaseException):
    """A seam failed to engage or the harness itself is inconsistent (exit 2)."""


class StepLimit(BaseException):
    """Harness step cap reached (harness limit, not a verdict)."""


_CURRENT: "World | None" = None


def current() -> "World":
    if _CURRENT is None:
        raise SeamError("no active world: a seam was reached outside a simulation")
    return _CURRENT


# --------------------------------------------------------------------------- clock


class VClock:
    EPOCH = 1_790_000_000.0  # virtual wall clock (2026-09) at monotonic START
    START = 1_000_000.0

    def __init__(self) -> None:
        self.now = self.START
        self.sleeps: list[float] = []

    def monotonic(self) -> float:
        return self.now

    def time(self) -> float:
        return self.EPOCH + (self.now - self.START)


# --------------------------------------------------------------------------- world


class World:
    MAX_IO_STEPS = 20000

    def __init__(self, scenario: dict | None = None) -> None:
        sc = scenario or {}
        self.sc = sc
        self.clock = VClock()
        self.dns: dict[str, list[str]] = dict(sc.get("dns") or {})
        self.dns_wildcard = sc.get("dns_wildcard", True)
        self.listeners: dict = {}
        self.default_listener = None
        self.sockets: list[SockRec] = []
        self.events: list = []
        self.lookups: list = []
        self.io_step = 0
        self.io_ops: list[str] = []
        self.dials = collections.deque(sc.get("dials") or [])
        self.exchanges = collections.deque(sc.get("exchanges") or [])
        self.connects = collections.deque(sc.get("connects") or [])
        self.step_faults = {int(f["at"]): f for f in (sc.get("step_faults") or [])}
        self.faults_fired = collections.Counter()
        self.probes = collections.Counter()
        self.requests: list = []  # every complete request seen by any HTTP peer
        self.exchange_count = 0
        self.responder = None  # fn(world, peer, req) -> spec | None
        self.seg = sc.get("seg") or {"mode": "whole"}
        self.sched = None  # set by simsched
        self.jitter = random.Random(sc.get("jitter_seed", 0))
        self.tls_log: list = []
        self.dial_count = 0

    # -- activation
    def __enter__(self) -> "World":
        global _CURRENT
        self._prev = _CURRENT
        _CURRENT = self
        return self

    def __exit__(self, *a) -> None:
        global _CURRENT
        _CURRENT = self._prev

    # -- time
    @property
    def now(self) -> float:
        return self.clock.now

    def advance(self, d: float) -> None:
        if d < 0:
            raise SeamError(f"negative time step {d}")
        if self.sched is not None:
            self.sched.sleep(d)
        else:
            self.clock.now += d

    def advance_to(self, t: float) -> None:
        if t > self.clock.now:
            self.advance(t - self.clock.now)

    def sleep(self, d: float) -> None:
        self.clock.sleeps.append(d)
        self.log("sleep", None, round(d, 6))
        if d > 0:
            self.advance(d)

    # -- log
    def log(self, kind: str, sock, detail=None) -> None:
        self.events.append((len(self.events), kind, sock.sid if sock is not None else None, detail))

    def digest(self) -> str:
        h = hashlib.sha256()
        for e in self.events:
            h.update(repr(e).encode())
        h.update(repr(round(self.clock.now, 6)).encode())
        return h.hexdigest()[:16]

    def abstract_trace(self) -> tuple:
        return tuple((e[1], e[2]) for e in self.events)

    # -- I/O step accounting and generic fault injection
    def io(self, op: str, sock) -> dict | None:
        if self.sched is not None:
            self.sched.yield_point("io:" + op)
        step = self.io_step
        self.io_step += 1
        self.io_ops.append(op)
        if self.io_step > self.MAX_IO_STEPS:
            raise StepLimit("io steps")
        f = self.step_faults.get(step)
        if f is not None:
            self.faults_fired[f"{op}:{f['kind']}"] += 1
            self.log("fault", sock, (op, f["kind"]))
        return f

    # -- DNS
    def resolve(self, host: str) -> list[str]:
        h = host
        self.lookups.append(h)
        if _is_ipv4(h) or ":" in h:
            return [h]
        key = h.lower()
        if key in self.dns:
            v = self.dns[key]
            return list(v) if isinstance(v, list) else [v]
        if self.dns_wildcard:
            d = hashlib.sha256(key.rstrip(".").encode("utf-8", "surrogatepass")).digest()
            return [f"10.{d[0]}.{d[1]}.{d[2] or 1}"]
        return []

    # -- listeners
    def listen(self, ip, port, factory) -> None:
        self.listeners[(ip, port)] = factory

    def find_listener(self, ip, port):
        for key in ((ip, port), (None, port), (ip, None)):
            if key in self.listeners:
                return self.listeners[key]
        return self.default_listener

    # -- scripted outcomes
    def next_dial(self) -> dict:
        self.dial_count += 1
        return self.dials.popleft() if self.dials else {"k": "ok"}

    def next_exchange(self, peer, req) -> dict:
        self.exchange_count += 1
        if self.responder is not None:
            spec = self.responder(self, peer, req)
            if spec is not None:
                return spec
        return self.exchanges.popleft() if self.exchanges else {"k": "resp"}

    def next_connect(self, peer, req) -> dict:
        return self.connects.popleft() if self.connects else {"k": "resp", "status": 200}

    def heal(self, settle: float = 3600.0) -> None:
        """Faults stop: scripted outcomes are dropped, pending closes arrive, peers
        that were told to go silent answer again."""
        self.dials.clear()
        self.exchanges.clear()
        self.connects.clear()
        self.step_faults.clear()
        self.responder = None
        self.advance(settle)
        for s in self.sockets:
            p = s.peer
            seen = 0
            while p is not None and seen < 4:
                if getattr(p, "dead", False) and not s.peer_fin:
                    p.dead = False
                    p.state = "head"
                    p.buf.clear()
                p = getattr(p, "tunnel", None) or getattr(p, "inner", None)
                seen += 1

    def open_sockets(self) -> list["SockRec"]:
        return [s for s in self.sockets if not s.really_closed]


def _is_ipv4(h: str) -> bool:
    parts = h.split(".")
    return len(parts) == 4 and all(p.isdigit() and int(p) < 256 for p in parts)


# --------------------------------------------------------------------------- socket


class SockRec:
    """State and behaviour of one in-memory TCP endpoint (kept by the world for the
    whole run, so oracles can still ask what was sent after the client let go).
    Mirrors the parts of socket.socket that urllib3, http.client, socket.SocketIO
    and SSLTransport touch, including the makefile()/_io_refs close accounting."""

    def __init__(self, world: World, family=_real_socket.AF_INET, type=_real_socket.SOCK_STREAM, proto=0):
        self.world = world
        self.sid = len(world.sockets)
        world.sockets.append(self)
        self.family = family
        self.type = type
        self.proto = proto
        self.timeout: float | None = None
        self.options: list = []
        self.bound = None
        self.peer_addr = None
        self.peer = None
        self.connected = False
        self._closed = False  # socket.socket._closed
        self._io_refs = 0
        self.really_closed = False
        self.inbound: collections.deque = collections.deque()
        self.eof_seen = False
        self.broken: str | None = None  # 'rst' once the stream is dead
        self.sent = bytearray()  # every byte the client wrote on this socket
        self.sent_count = 0
        self.timeouts_at_io: list = []  # (op, timeout in force)
        self.peer_fin = False
        self.owner = None  # for simsched exclusive-use monitor
        self.tags: dict = {}
        self._segrng = None
        world.log("socket", self, None)

    # ---- configuration
    def settimeout(self, value) -> None:
        if value is not None:
            value = float(value)
            if value < 0:
                raise ValueError("Timeout value out of range")
        self.timeout = value
        self.world.log("settimeout", self, value)

    def gettimeout(self):
        return self.timeout

    def setblocking(self, flag) -> None:
        self.settimeout(None if flag else 0.0)

    def setsockopt(self, *opt) -> None:
        self.options.append(tuple(opt))

    def getsockopt(self, *a):
        return 0

    def bind(self, addr) -> None:
        self.bound = tuple(addr)
        self.world.log("bind", self, self.bound)

    def fileno(self) -> int:
        return -1 if self.really_closed else 1000 + self.sid

    def getpeername(self):
        if not self.connected:
            raise OSError(errno.ENOTCONN, "not connected")
        return self.peer_addr

    def getsockname(self):
        return self.bound or ("10.9.9.9", 40000 + self.sid)

    # ---- connect
    def connect(self, sa) -> None:
        w = self.world
        f = w.io("connect", self)
        self.peer_addr = tuple(sa)
        ip, port = sa[0], sa[1]
        plan = w.next_dial()
        kind = plan.get("k", "ok")
        if f is not None:
            kind = {"refused": "refused", "timeout": "timeout", "intr": "intr", "eio": "unreach"}.get(f["kind"], "refused")
        self.timeouts_at_io.append(("connect", self.timeout))
        w.log("dial", self, (ip, port, kind, self.timeout))
        if kind == "intr":
            w.faults_fired["connect:intr"] += f is None
            raise SimInterrupt("connect")
        if kind == "refused":
            w.faults_fired["connect:refused"] += f is None
            raise ConnectionRefusedError(errno.ECONNREFUSED, "Connection refused")
        if kind == "unreach":
            w.faults_fired["connect:unreach"] += f is None
            raise OSError(errno.ENETUNREACH, "Network is unreachable")
        if kind == "timeout":
            w.faults_fired["connect:timeout"] += f is None
            if self.timeout is None:
                w.advance(127.0)
                raise TimeoutError(errno.ETIMEDOUT, "Connection timed out")
            w.advance(self.timeout)
            raise _REAL_TIMEOUT("timed out")
        d = float(plan.get("d", 0.0))
        if d > 0:
            if self.timeout is not None and d > self.timeout:
                w.faults_fired["connect:slow-timeout"] += 1
                w.advance(self.timeout)
                raise _REAL_TIMEOUT("timed out")
            w.advance(d)
        factory = w.find_listener(ip, port)
        if factory is None:
            w.faults_fired["connect:nolistener"] += 1
            raise ConnectionRefusedError(errno.ECONNREFUSED, "Connection refused")
        self.connected = True
        w.log("connected", self, (ip, port))
        self.peer = factory(w, self)

    # ---- peer -> client
    def _seg_sizes(self, n: int):
        seg = self.world.seg
        mode = seg.get("mode", "whole")
        if mode == "whole" or n == 0:
            return [n]
        if mode == "byte":
            return [1] * n
        if mode == "fixed":
            k = max(1, int(seg.get("n", 1)))
            return [min(k, n - i) for i in range(0, n, k)]
        if mode == "list":
            sizes = [max(1, int(x)) for x in seg.get("sizes") or [1]]
            out, i, left = [], 0, n
            while left > 0:
                s = min(sizes[i % len(sizes)], left)
                out.append(s)
                left -= s
                i += 1
            return out
        if mode == "rand":
            if self._segrng is None:
                self._segrng = random.Random(f"{seg.get('seed', 0)}/{self.sid}")
            mx = max(1, int(seg.get("max", 16)))
            out, left = [], n
            while left > 0:
                s = min(self._segrng.randint(1, mx), left)
                out.append(s)
                left -= s
            return out
        if mode == "cuts":  # absolute cut offsets into this socket's inbound stream
            cuts = sorted(set(int(c) for c in seg.get("at") or []))
            base = self.tags.get("pushed", 0)
            out, pos = [], base
            for c in cuts:
                if pos < c < base + n:
                    out.append(c - pos)
                    pos = c
            out.append(base + n - pos)
            return out
        raise SeamError(f"unknown segmentation {mode}")

    def peer_push(self, data: bytes, delay: float = 0.0, whole: bool = False) -> None:
        if not data:
            return
        t = self.world.now + delay
        if self.inbound and self.inbound[-1][0] > t:
            t = self.inbound[-1][0]  # FIFO: never overtake
        sizes = [len(data)] if whole else self._seg_sizes(len(data))
        self.tags["pushed"] = self.tags.get("pushed", 0) + len(data)
        pos = 0
        for s in sizes:
            self.inbound.append([t, "data", bytes(data[pos : pos + s])])
            pos += s

    def peer_eof(self, delay: float = 0.0) -> None:
        t = self.world.now + delay
        if self.inbound and self.inbound[-1][0] > t:
            t = self.inbound[-1][0]
        self.inbound.append([t, "eof", b""])
        self.peer_fin = True

    def peer_rst(self, delay: float = 0.0) -> None:
        t = self.world.now + delay
        if self.inbound and self.inbound[-1][0] > t:
            t = self.inbound[-1][0]
        self.inbound.append([t, "rst", b""])
        self.peer_fin = True

    def readable_now(self) -> bool:
        """What poll(POLLIN) would say at this virtual instant."""
        if self.broken:
            return True
        return bool(self.inbound) and self.inbound[0][0] <= self.world.now

    def next_arrival(self):
        return self.inbound[0][0] if self.inbound else None

    def pending_bytes(self) -> int:
        return sum(len(e[2]) for e in self.inbound if e[1] == "data")

    # ---- client -> peer
    def sendall(self, data, flags: int = 0) -> None:
        w = self.world
        data = memoryview(data).tobytes()  # TypeError for non-buffers, like a real socket
        if self.really_closed:
            raise OSError(errno.EBADF, "Bad file descriptor")
        f = w.io("send", self)
        if not self.connected:
            raise OSError(errno.ENOTCONN, "Socket is not connected")
        self.timeouts_at_io.append(("send", self.timeout))
        if self.owner is not None:
            self.owner("send", self)
        if f is not None:
            k = f["kind"]
            after = f.get("after", 0)
            if after == "half":
                after = len(data) // 2
            pre = data[: min(int(after), len(data))]
            if pre and not self.broken:
                self._deliver(pre)
            if k == "intr":
                raise SimInterrupt("send")
            self.broken = self.broken or "rst"
            if k == "epipe":
                raise BrokenPipeError(errno.EPIPE, "Broken pipe")
            if k == "reset":
                raise ConnectionResetError(errno.ECONNRESET, "Connection reset by peer")
            if k == "eprototype":
                raise OSError(errno.EPROTOTYPE, "Protocol wrong type for socket")
            if k == "timeout":
                self.broken = None
                w.advance(self.timeout if self.timeout is not None else 60.0)
                raise _REAL_TIMEOUT("timed out")
            raise OSError(errno.EIO, "Input/output error")
        if self.broken:
            raise BrokenPipeError(errno.EPIPE, "Broken pipe")
        self._deliver(data)

    def send(self, data, flags: int = 0) -> int:
        self.sendall(data)
        return len(memoryview(data).tobytes())

    def _deliver(self, data: bytes) -> None:
        w = self.world
        self.sent += data
        self.sent_count += 1
        w.log("send", self, (len(data), hashlib.sha256(data).hexdigest()[:8]) if not self.tags.get("opaque") else None)
        if self.peer is not None and not self.tags.get("peer_deaf"):
            self.peer.on_data(data)

    # ---- receive
    def recv(self, n: int, flags: int = 0) -> bytes:
        w = self.world
        if self.really_closed:
            raise OSError(errno.EBADF, "Bad file descriptor")
        f = w.io("recv", self)
        self.timeouts_at_io.append(("recv", self.timeout))
        if self.owner is not None:
            self.owner("recv", self)
        if f is not None:
            k = f["kind"]
            if k == "intr":
                raise SimInterrupt("recv")
            if k == "timeout":
                w.advance(self.timeout if self.timeout is not None else 60.0)
                raise _REAL_TIMEOUT("timed out")
            if k == "eof":
                self.inbound.clear()
                self.inbound.append([w.now, "eof", b""])
                self.peer_fin = True
            elif k == "reset":
                self.inbound.clear()
                self.broken = "rst"
            else:
                self.inbound.clear()
                self.broken = "rst"
                raise OSError(errno.EIO, "Input/output error")
        if self.broken:
            w.log("recv_rst", self)
            raise ConnectionResetError(errno.ECONNRESET, "Connection reset by peer")
        while True:
            if not self.inbound:
                w.log("recv_block", self, self.timeout)
                if self.timeout is not None:
                    w.faults_fired["recv:timeout(silence)"] += 1
                    w.advance(self.timeout)
                    raise _REAL_TIMEOUT("timed out")
                if w.sched is not None:
                    w.sched.block_forever("recv")
                raise SimHang(f"recv on socket {self.sid}: nothing will ever arrive and no timeout is set")
            t, kind, data = self.inbound[0]
            if t > w.now:
                if self.timeout is not None and w.now + self.timeout < t:
                    w.faults_fired["recv:timeout(slow)"] += 1
                    w.log("recv_timeout", self, self.timeout)
                    w.advance(self.timeout)
                    raise _REAL_TIMEOUT("timed out")
                w.advance_to(t)
                continue
            if kind == "data":
                take = min(n, len(data))
                out = data[:take]
                if take < len(data):
                    self.inbound[0][2] = data[take:]
                else:
                    self.inbound.popleft()
                w.log("recv", self, take)
                return out
            if kind == "eof":
                self.eof_seen = True
                w.log("recv_eof", self)
                return b""
            if kind == "rst":
                self.inbound.popleft()
                self.broken = "rst"
                w.log("recv_rst", self)
                raise ConnectionResetError(errno.ECONNRESET, "Connection reset by peer")
            raise SeamError(f"bad inbound entry {kind}")

    def recv_into(self, buffer, nbytes: int = 0, flags: int = 0) -> int:
        mv = memoryview(buffer)
        n = nbytes or len(mv)
        data = self.recv(n)
        mv[: len(data)] = data
        return len(data)

    def _decref_socketios(self) -> None:
        if self._io_refs > 0:
            self._io_refs -= 1
        if self._closed:
            self.close()

    def _real_close(self, how: str = "close") -> None:
        if not self.really_closed:
            self.really_closed = True
            self.world.log(how, self)
            if self.peer is not None:
                self.peer.on_client_close()

    def close(self) -> None:
        self._closed = True
        if self._io_refs <= 0:
            self._real_close()

    def shutdown(self, how) -> None:
        self.world.log("shutdown", self, int(how))
        if self._closed and self._io_refs <= 0:
            raise OSError(errno.EBADF, "Bad file descriptor")
        if how in (_real_socket.SHUT_RD, _real_socket.SHUT_RDWR):
            self.inbound.clear()
            self.inbound.append([self.world.now, "eof", b""])

    def detach(self):
        raise SeamError("detach() on a SimSocket")

    def __repr__(self) -> str:
        return f"<SimSocket {self.sid} to={self.peer_addr} closed={self.really_closed}>"


class SimSocket:
    """The object the client holds.  Everything is delegated to the SockRec; the
    handle exists so that, like a real socket, the endpoint is closed when the last
    client-side reference goes away (CPython closes a socket on deallocation)."""

    __slots__ = ("rec", "__weakref__")

    def __init__(self, world: World, family=_real_socket.AF_INET, type=_real_socket.SOCK_STREAM, proto=0):
        object.__setattr__(self, "rec", SockRec(world, family, type, proto))

    def __getattr__(self, name):
        return getattr(self.rec, name)

    def __setattr__(self, name, value):
        setattr(self.rec, name, value)

    def __del__(self):
        rec = self.rec
        if not rec.really_closed:
            rec.world.probes["closed_by_dealloc"] += 1
            rec._real_close("close_dealloc")

    def __enter__(self):
        return self

    def __exit__(self, *a):
        self.rec.close()

    def __repr__(self) -> str:
        return repr(self.rec)

    # ---- file interface, exactly as socket.socket.makefile builds it
    def makefile(self, mode: str = "r", buffering=None, **kw):
        if not set(mode) <= {"r", "w", "b"}:
            raise ValueError("invalid mode %r (only r, w, b allowed)" % (mode,))
        writing = "w" in mode
        reading = "r" in mode or not writing
        binary = "b" in mode
        rawmode = ("r" if reading else "") + ("w" if writing else "")
        raw = _real_socket.SocketIO(self, rawmode)
        self.rec._io_refs += 1
        if buffering is None:
            buffering = -1
        if buffering < 0:
            buffering = io.DEFAULT_BUFFER_SIZE
        if buffering == 0:
            return raw
        if reading and writing:
            buf = io.BufferedRWPair(raw, raw, buffering)
        elif reading:
            buf = io.BufferedReader(raw, buffering)
        else:
            buf = io.BufferedWriter(raw, buffering)
        if binary:
            return buf
        return io.TextIOWrapper(buf, kw.get("encoding"), kw.get("errors"), kw.get("newline"))



# --------------------------------------------------------------------------- seams


class _SimSocketModule:
    """Stands in for the name `socket` inside urllib3.util.connection."""

    def __getattr__(self, name):
        return getattr(_real_socket, name)

    @staticmethod
    def getaddrinfo(host, port, family=0, type=0, proto=0, flags=0):
        w = current()
        if w.sched is not None:
            w.sched.yield_point("dns")
        if isinstance(host, bytes):
            host = host.decode("ascii")
        ips = w.resolve(host)
        w.log("dns", None, (host, tuple(ips)))
        if not ips:
            raise _real_socket.gaierror(_real_socket.EAI_NONAME, "Name or service not known")
        out = []
        for ip in ips:
            if ":" in ip:
                addr, _, scope = ip.partition("%")
                out.append((_real_socket.AF_INET6, _real_socket.SOCK_STREAM, 6, "", (addr, port, 0, scope or 0)))
            else:
                out.append((_real_socket.AF_INET, _real_socket.SOCK_STREAM, 6, "", (ip, port)))
        return out

    @staticmethod
    def socket(family=_real_socket.AF_INET, type=_real_socket.SOCK_STREAM, proto=0, fileno=None):
        return SimSocket(current(), family, type, proto)


class _SimPoll:
    def __init__(self) -> None:
        self.reg: list = []

    def register(self, sock, mask) -> None:
        base = _base_socket(sock)
        if not isinstance(base, SimSocket):
            raise SeamError(f"poll.register on a non-simulated object {sock!r}")
        self.reg.append((sock, base, mask))

    def poll(self, timeout_ms=None):
        w = current()
        if w.sched is not None:
            w.sched.yield_point("poll")
        while True:
            ready = []
            for sock, base, mask in self.reg:
                ev = 0
                if mask & _SimSelect.POLLIN and base.readable_now():
                    ev |= _SimSelect.POLLIN
                if mask & _SimSelect.POLLOUT and not base.really_closed:
                    ev |= _SimSelect.POLLOUT
                if ev:
                    ready.append((base.fileno(), ev))
            w.log("poll", self.reg[0][1] if self.reg else None, (timeout_ms, bool(ready)))
            if ready or timeout_ms == 0:
                return ready
            arrivals = [b.next_arrival() for _, b, m in self.reg if m & _SimSelect.POLLIN and b.next_arrival() is not None]
            if timeout_ms is None:
                if not arrivals:
                    if w.sched is not None:
                        w.sched.block_forever("poll")
                    raise SimHang("poll() without timeout and nothing will arrive")
                w.advance_to(min(arrivals))
                continue
            deadline = w.now + timeout_ms / 1000.0
            nxt = min(arrivals) if arrivals else None
            if nxt is not None and nxt <= deadline:
                w.advance_to(nxt)
                timeout_ms = max(0.0, (deadline - w.now) * 1000.0)
                continue
            w.advance_to(deadline)
            return []


class _SimSelect:
    POLLIN = 1
    POLLOUT = 4
    POLLERR = 8
    POLLHUP = 16

    @staticmethod
    def poll():
        return _SimPoll()

    @staticmethod
    def select(r, wl, x, timeout=None):
        p = _SimPoll()
        for s in r:
            p.register(s, _SimSelect.POLLIN)
        for s in wl:
            p.register(s, _SimSelect.POLLOUT)
        res = p.poll(None if timeout is None else timeout * 1000.0)
        fds = {fd: ev for fd, ev in res}
        rr = [s for s in r if fds.get(_base_socket(s).fileno(), 0) & _SimSelect.POLLIN]
        ww = [s for s in wl if fds.get(_base_socket(s).fileno(), 0) & _SimSelect.POLLOUT]
        return rr, ww, []


def _base_socket(sock):
    seen = 0
    while not isinstance(sock, SimSocket) and hasattr(sock, "socket") and seen < 4:
        sock = sock.socket
        seen += 1
    return sock


class _SimTime:
    """Stands in for the name `time` in urllib3.util.timeout / urllib3.util.retry."""

    @staticmethod
    def monotonic() -> float:
        return current().clock.monotonic()

    @staticmethod
    def time() -> float:
        return current().clock.time()

    @staticmethod
    def sleep(d: float) -> None:
        current().sleep(float(d))

    def __getattr__(self, name):
        import time as _t

        if name in ("perf_counter", "monotonic_ns", "time_ns"):
            raise SeamError(f"unexpected clock read time.{name}")
        return getattr(_t, name)


class _SimRandom:
    @staticmethod
    def random() -> float:
        return current().jitter.random()

    def __getattr__(self, name):
        raise SeamError(f"unexpected randomness random.{name}")


_INSTALLED = False


def install_seams() -> None:
    """Substitute the module-level names.  Done once per harness process; the
    replacements consult the active World, and abort loudly outside one."""
    global _INSTALLED
    if _INSTALLED:
        return
    import logging
    import os

    import urllib3
    import urllib3.util.connection as uconn
    import urllib3.util.retry as uretry
    import urllib3.util.timeout as utimeout
    import urllib3.util.wait as uwait

    want = os.environ.get("VERIF_REPO_SRC", "/repo/src")
    if not os.path.realpath(urllib3.__file__).startswith(os.path.realpath(want) + os.sep):
        raise SeamError(f"urllib3 imported from {urllib3.__file__}, expected under {want}")
    for mod, name in ((uconn, "socket"), (uwait, "select"), (utimeout, "time"), (uretry, "time"), (uretry, "random")):
        if not hasattr(mod, name):
            raise SeamError(f"seam {mod.__name__}.{name} is gone")
    uconn.socket = _SimSocketModule()
    uwait.select = _SimSelect()
    # wait_for_socket rebinds itself on first use after probing select.poll;
    # make sure the probe sees the simulated poll
    utimeout.time = _SimTime()
    uretry.time = utimeout.time
    uretry.random = _SimRandom()
    from . import sync, tls
    from urllib3.connectionpool import ConnectionPool

    ConnectionPool.QueueCls = sync.SimLifoQueue
    tls.install()
    logging.disable(logging.CRITICAL)
    _INSTALLED = True


def freeze_heap() -> None:
    """Park everything allocated so far in the permanent generation so that the
    explicit gc.collect() calls at scripted points only scan a run's own objects."""
    import gc

    gc.collect()
    gc.freeze()
