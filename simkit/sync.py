"""Drop-in replacements for queue.LifoQueue and threading.RLock whose blocking is
simulated: virtual-time timeouts, and (under simsched) seeded choice of who runs.
Semantics are those of the stdlib classes for the calls urllib3 makes."""
from __future__ import annotations

import queue

from . import world as W


def _sched():
    w = W._CURRENT
    return w.sched if w is not None else None


class SimLifoQueue:
    def __init__(self, maxsize: int = 0) -> None:
        self.maxsize = maxsize
        self.queue: list = []

    def qsize(self) -> int:
        s = _sched()
        if s is not None:
            s.yield_point("q.qsize")
        return len(self.queue)

    def empty(self) -> bool:
        return not self.queue

    def full(self) -> bool:
        return 0 < self.maxsize <= len(self.queue)

    def put(self, item, block: bool = True, timeout=None) -> None:
        s = _sched()
        if s is not None:
            s.yield_point("q.put")
        if timeout is not None and timeout < 0:
            raise ValueError("'timeout' must be a non-negative number")
        while 0 < self.maxsize <= len(self.queue):
            if not block:
                raise queue.Full
            if s is None:
                if timeout is None:
                    raise W.SimHang("put() on a full queue with no other thread")
                W.current().advance(timeout)
                raise queue.Full
            if not s.wait(("notfull", id(self)), timeout):
                raise queue.Full
        self.queue.append(item)
        if s is not None:
            s.notify(("notempty", id(self)))

    def get(self, block: bool = True, timeout=None):
        s = _sched()
        cb = getattr(self, "on_enter", None)
        if cb is not None:
            cb(self, block)  # the moment of the call, before anything else can run (a harness tells from it which queue object the caller had in hand)
        if s is not None:
            s.yield_point("q.get")
        if timeout is not None and timeout < 0:
            raise ValueError("'timeout' must be a non-negative number")
        deadline = None
        while not self.queue:
            if not block:
                raise queue.Empty
            if s is None:
                if timeout is None:
                    raise W.SimHang("get() on an empty queue with no other thread")
                W.current().advance(timeout)
                raise queue.Empty
            if deadline is None and timeout is not None:
                deadline = s.now() + timeout
            remaining = None if deadline is None else max(0.0, deadline - s.now())
            if deadline is not None and remaining <= 0:
                raise queue.Empty
            if not s.wait(("notempty", id(self)), remaining):
                raise queue.Empty
        item = self.queue.pop()
        if s is not None:
            s.notify(("notfull", id(self)))
        return item

    def put_nowait(self, item) -> None:
        self.put(item, block=False)

    def get_nowait(self):
        return self.get(block=False)


class SimRLock:
    """Re-entrant lock with acquisition as a scheduling point."""

    def __init__(self) -> None:
        self.owner = None
        self.count = 0

    def acquire(self, blocking: bool = True, timeout: float = -1) -> bool:
        s = _sched()
        me = s.current_task() if s is not None else "main"
        if s is not None:
            s.yield_point("lock.acquire")
        while self.owner is not None and self.owner != me:
            if not blocking:
                return False
            if s is None:
                raise W.SimHang("lock held by nobody runnable")
            s.wait(("lock", id(self)), None if timeout is None or timeout < 0 else timeout)
        self.owner = me
        self.count += 1
        return True

    def release(self) -> None:
        s = _sched()
        me = s.current_task() if s is not None else "main"
        if self.owner != me:
            raise RuntimeError("cannot release un-acquired lock")
        self.count -= 1
        if self.count == 0:
            self.owner = None
            if s is not None:
                s.notify(("lock", id(self)))
                s.yield_point("lock.release")

    def held_by_current(self) -> bool:
        s = _sched()
        me = s.current_task() if s is not None else "main"
        return self.owner == me

    __enter__ = acquire

    def __exit__(self, *a) -> None:
        self.release()
