import os
import sys

HERE = os.path.dirname(os.path.dirname(os.path.abspath(__file__)))
if HERE not in sys.path:
    sys.path.insert(0, HERE)
SRC = os.environ.get("VERIF_REPO_SRC", "/repo/src")
if SRC not in sys.path:
    sys.path.insert(0, SRC)

from simkit import runner  # noqa: E402

if __name__ == "__main__":
    sys.exit(runner.main())
