"""Shared pieces of the property modules: building urllib3 objects from JSON
configs, standard worlds (direct / forwarding proxy / CONNECT tunnel), exception
classification."""
from __future__ import annotations

import gc
import io
import warnings

from . import peers as P
from . import tls as T
from . import world as W

PROXY_HOST = "proxy.test"
PROXY_PORT = 3128
ORIGIN = "h.test"


def u3():
    import urllib3

    return urllib3


def mk_retry(spec):
    """JSON -> what the caller passes as `retries`."""
    from urllib3.util.retry import Retry

    if spec is None or spec is False or isinstance(spec, int):
        return spec
    if spec == "default":
        return None
    kw = dict(spec)
    am = kw.pop("allowed_methods", "default")
    if am != "default":
        kw["allowed_methods"] = None if am is None else frozenset(am)
    if "status_forcelist" in kw and kw["status_forcelist"] is not None:
        kw["status_forcelist"] = frozenset(kw["status_forcelist"])
    if "remove_headers_on_redirect" in kw:
        kw["remove_headers_on_redirect"] = frozenset(kw["remove_headers_on_redirect"])
    return Retry(**kw)


def mk_timeout(spec):
    from urllib3.util.timeout import Timeout

    if spec is None or isinstance(spec, (int, float)):
        return spec
    if spec == "default":
        return Timeout.DEFAULT_TIMEOUT
    return Timeout(**spec)


def retry_fields(r) -> dict:
    return {
        k: getattr(r, k)
        for k in (
            "total", "connect", "read", "redirect", "status", "other", "allowed_methods", "status_forcelist", "backoff_factor", "backoff_max",
            "raise_on_redirect", "raise_on_status", "history", "respect_retry_after_header", "remove_headers_on_redirect", "backoff_jitter",
        )
    }


def origin_factory(name="origin", role="origin", via_tls=False):
    return lambda w, chan: P.HttpPeer(w, chan, name, role, via_tls)


def tls_origin_factory(cert="any", name="origin"):
    def f(w, chan):
        q = w.sc.get("certs") if w.sc else None
        c = cert
        if q:
            i = w.tags.setdefault("cert_i", 0)
            if i < len(q):
                c = q[i]
            w.tags["cert_i"] = i + 1
        if c.startswith("bad_"):
            w.attempts.append(("other", "tls-untrusted", chan.sid))
            w.faults_fired["tls:untrusted"] += 1
        return T.TlsPeer(w, chan, origin_factory(name, "origin", True), cert=c, name=name)

    return f


def std_world(sc: dict) -> W.World:
    """World for config.path in {direct, direct_tls, fwd, tunnel, tunnel_tlsproxy}."""
    w = W.World(sc)
    path = sc.get("config", {}).get("path", "direct")
    if path == "direct":
        w.default_listener = origin_factory()
    elif path == "direct_tls":
        w.default_listener = tls_origin_factory()
    elif path == "fwd":
        w.default_listener = origin_factory("proxy", "proxy")
    elif path == "tunnel":
        w.default_listener = origin_factory("proxy", "proxy")
        w.tunnel_factory = lambda w_, chan, target: tls_origin_factory()(w_, chan)
    elif path == "tunnel_tlsproxy":
        w.default_listener = lambda w_, chan: T.TlsPeer(w_, chan, origin_factory("proxy", "proxy", True), cert="proxy", name="proxy")
        w.tunnel_factory = lambda w_, chan, target: T.TlsPeer(w_, chan, origin_factory("origin", "origin", True), cert="any", name="origin")
    else:
        raise ValueError(path)
    return w


class Client:
    """The caller's side for one pool reached through config.path."""

    def __init__(self, cfg: dict, **extra) -> None:
        urllib3 = u3()
        self.cfg = cfg
        self.path = cfg.get("path", "direct")
        kw = {}
        for k in ("maxsize", "block"):
            if k in cfg:
                kw[k] = cfg[k]
        if "retries" in cfg:
            kw["retries"] = mk_retry(cfg["retries"])
        if "timeout" in cfg:
            kw["timeout"] = mk_timeout(cfg["timeout"])
        kw.update(extra)
        self.manager = None
        if self.path == "direct":
            self.base = f"http://{ORIGIN}"
            if cfg.get("entry") == "manager":
                self.manager = urllib3.PoolManager(**kw)
                self.pool = self.manager.connection_from_url(self.base + "/")
            else:
                self.pool = urllib3.HTTPConnectionPool(ORIGIN, 80, **kw)
        elif self.path == "direct_tls":
            self.base = f"https://{ORIGIN}"
            if cfg.get("entry") == "manager":
                self.manager = urllib3.PoolManager(ca_certs=T.CA_GOOD, **kw)
                self.pool = self.manager.connection_from_url(self.base + "/")
            else:
                self.pool = urllib3.HTTPSConnectionPool(ORIGIN, 443, ca_certs=T.CA_GOOD, **kw)
        elif self.path == "fwd":
            self.base = f"http://{ORIGIN}"
            self.manager = urllib3.ProxyManager(f"http://{PROXY_HOST}:{PROXY_PORT}", **kw)
            self.pool = self.manager.connection_from_url(self.base + "/")
        elif self.path == "tunnel":
            self.base = f"https://{ORIGIN}"
            self.manager = urllib3.ProxyManager(f"http://{PROXY_HOST}:{PROXY_PORT}", ca_certs=T.CA_GOOD, **kw)
            self.pool = self.manager.connection_from_url(self.base + "/")
        elif self.path == "tunnel_tlsproxy":
            self.base = f"https://{ORIGIN}"
            self.manager = urllib3.ProxyManager(f"https://{PROXY_HOST}:{PROXY_PORT}", ca_certs=T.CA_GOOD, **kw)
            self.pool = self.manager.connection_from_url(self.base + "/")
        else:
            raise ValueError(self.path)

    def urlopen(self, method: str, path: str, **kw):
        """Request through the pool itself (the object whose slots are counted)."""
        if self.path == "fwd":
            hdrs = kw.pop("headers", None)
            kw["headers"] = self.manager._set_proxy_headers(self.base + path, hdrs if hdrs is not None else self.manager.headers)
            return self.pool.urlopen(method, self.base + path, assert_same_host=False, **kw)
        return self.pool.urlopen(method, path, **kw)


def is_urllib3_error(e: BaseException) -> bool:
    from urllib3.exceptions import HTTPError

    return isinstance(e, HTTPError)


def is_raw_io_error(e: BaseException) -> bool:
    """A socket, ssl or http.client error that was not translated."""
    import http.client
    import ssl

    from urllib3.exceptions import HTTPError

    return not isinstance(e, HTTPError) and isinstance(e, (OSError, ssl.SSLError, http.client.HTTPException, ssl.CertificateError))


def strip_tb(e) -> None:
    """Drop traceback references (frames keep sockets alive; the caller of a real
    program lets go of the exception at the end of its except block)."""
    seen = 0
    while e is not None and seen < 10:
        e.__traceback__ = None
        for attr in ("reason", "original_error"):
            r = getattr(e, attr, None)
            if isinstance(r, BaseException):
                r.__traceback__ = None
        e = e.__cause__ or e.__context__
        seen += 1


def exc_name(e: BaseException) -> str:
    return type(e).__name__


def root_reason(e: BaseException):
    """Unwrap MaxRetryError.reason / ProxyError.original_error chains."""
    seen = 0
    while seen < 6:
        seen += 1
        r = getattr(e, "reason", None)
        if isinstance(r, BaseException):
            e = r
            continue
        o = getattr(e, "original_error", None)
        if isinstance(o, BaseException):
            e = o
            continue
        break
    return e


class quiet_warnings:
    def __init__(self, record_cls=None):
        self.cm = warnings.catch_warnings(record=True)
        self.record_cls = record_cls

    def __enter__(self):
        self.log = self.cm.__enter__()
        warnings.simplefilter("always")
        return self

    def __exit__(self, *a):
        return self.cm.__exit__(*a)

    def of(self, cls):
        return [x for x in self.log if issubclass(x.category, cls)]


def collect():
    gc.collect()


class RunEnv:
    """gc off for the run (deterministic finalizer timing), restored after."""

    def __enter__(self):
        self.was = gc.isenabled()
        gc.collect()
        gc.disable()
        return self

    def __exit__(self, *a):
        if self.was:
            gc.enable()
        gc.collect()


def mk_body(spec):
    """JSON -> request body object.  spec: None | {"kind":..., "size":..., ...}"""
    if spec is None:
        return None, None
    kind = spec["kind"]
    n = int(spec.get("size", 0))
    raw = (bytes(range(33, 127)) * (n // 94 + 1))[:n]
    if kind == "bytes":
        return raw, raw
    if kind == "str":
        s = raw.decode("ascii")
        return s, raw
    if kind == "bytesio":
        return io.BytesIO(raw), raw
    if kind == "notell":
        return NoTellBody(raw), raw  # pipe-like: readable once, tell() fails, so its position cannot be recorded
    raise ValueError(kind)


class NoTellBody:
    """A file-like request body that behaves like the read end of a pipe: read() works, tell()/seek() raise OSError."""

    def __init__(self, raw: bytes) -> None:
        self._b = io.BytesIO(raw)

    def read(self, n: int = -1) -> bytes:
        return self._b.read(n)

    def tell(self) -> int:
        raise OSError(29, "Illegal seek")

    def seek(self, *a):
        raise OSError(29, "Illegal seek")
