"""pyOpenSSL backend over the simulated network.

urllib3.contrib.pyopenssl hands the carrier socket to `OpenSSL.SSL.Connection(ctx, sock)`, which wants
a kernel file descriptor (SSL_set_fd).  pyOpenSSL's Connection also has a memory-BIO mode
(`Connection(ctx, None)` + bio_read/bio_write); the seam below is the *name* `OpenSSL` in
urllib3.contrib.pyopenssl's namespace, replaced by a proxy whose `SSL.Connection` builds a BIO-mode
Connection and moves the records between the BIOs and the SimSocket.

Everything urllib3 owns stays real: PyOpenSSLContext (verify mode, CA loading, `_verify_callback`),
WrappedSocket (recv/recv_into/sendall/close accounting, the WantReadError -> wait_for_read -> retry
loops, error translation), getpeercert()/get_subj_alt_name for urllib3's own match_hostname, and OpenSSL
itself (handshake, chain validation).  The pump is non-blocking like a real non-blocking fd: when no
record has arrived at this virtual instant it re-raises WantReadError, so urllib3's own
wait_for_read (-> SimPoll, virtual clock) decides about time-outs.
"""
from __future__ import annotations

import errno

from . import world as W


class _ConnShim:
    """OpenSSL.SSL.Connection in memory-BIO mode, pumped over a SimSocket."""

    def __init__(self, real_ssl, ctx, sock):
        self.__dict__["_ssl_mod"] = real_ssl
        self.__dict__["_c"] = real_ssl.Connection(ctx, None)
        self.__dict__["_s"] = sock
        base = W._base_socket(sock)
        self.__dict__["_base"] = base
        base.tags["opaque"] = True
        base.world.tls_log.append(("client_wrap_pyopenssl", base.sid))
        base.world.log("tls_wrap_pyopenssl", base, None)

    def __getattr__(self, name):
        return getattr(self.__dict__["_c"], name)

    # ---- the pump
    def _out(self) -> None:
        S = self._ssl_mod
        while True:
            try:
                d = self._c.bio_read(1 << 16)
            except S.WantReadError:
                return
            try:
                self._s.sendall(d)
            except (BrokenPipeError, ConnectionResetError) as e:
                raise S.SysCallError(e.errno, errno.errorcode.get(e.errno)) from None

    def _in(self) -> bool:
        """Move what has arrived at this instant into the BIO; False = nothing there (would block)."""
        S = self._ssl_mod
        if not self._base.readable_now():
            return False
        try:
            d = self._s.recv(1 << 16)
        except ConnectionResetError as e:
            raise S.SysCallError(e.errno, errno.errorcode.get(e.errno)) from None
        if d:
            self._c.bio_write(d)
        else:
            self._c.bio_shutdown()
        return True

    def _op(self, fn, *a):
        S = self._ssl_mod
        while True:
            try:
                r = fn(*a)
            except S.WantReadError:
                self._out()
                if self._in():
                    continue
                raise
            except BaseException:
                try:
                    self._out()  # alerts produced by the failure go out, as on a real fd
                except BaseException:
                    pass
                raise
            self._out()
            return r

    def do_handshake(self):
        return self._op(self._c.do_handshake)

    def recv(self, bufsiz, flags=None):
        return self._op(self._c.recv, bufsiz)

    read = recv

    def recv_into(self, buffer, nbytes=None, flags=None):
        return self._op(self._c.recv_into, buffer, nbytes)

    def send(self, buf, flags=0):
        return self._op(self._c.send, buf)

    def sendall(self, buf, flags=0):
        return self._op(self._c.sendall, buf)

    def shutdown(self):
        try:
            return self._op(self._c.shutdown)
        except self._ssl_mod.WantReadError:
            return False

    def close(self):
        return self._s.close()

    def fileno(self):
        return self._s.fileno()

    def gettimeout(self):
        return self._s.gettimeout()

    def settimeout(self, v):
        return self._s.settimeout(v)


class _SSLProxy:
    def __init__(self, real_ssl):
        self.__dict__["_real"] = real_ssl

    def __getattr__(self, name):
        return getattr(self.__dict__["_real"], name)

    def Connection(self, ctx, sock=None):  # noqa: N802 (the name urllib3 calls)
        real = self.__dict__["_real"]
        base = W._base_socket(sock) if sock is not None else None
        if isinstance(base, W.SimSocket):
            return _ConnShim(real, ctx, sock)
        if W._CURRENT is not None:
            raise W.SeamError(f"real socket {sock!r} reached OpenSSL.SSL.Connection inside a simulation")
        return real.Connection(ctx, sock)


class _OpenSSLProxy:
    def __init__(self, real):
        self.__dict__["_real"] = real
        self.__dict__["SSL"] = _SSLProxy(real.SSL)

    def __getattr__(self, name):
        return getattr(self.__dict__["_real"], name)


_INSTALLED = False


def install() -> None:
    """Substitute the name `OpenSSL` in urllib3.contrib.pyopenssl (idempotent)."""
    global _INSTALLED
    if _INSTALLED:
        return
    import urllib3.contrib.pyopenssl as up

    if not hasattr(up, "OpenSSL"):
        raise W.SeamError("seam urllib3.contrib.pyopenssl.OpenSSL is gone")
    up.OpenSSL = _OpenSSLProxy(up.OpenSSL)
    _INSTALLED = True


class injected:
    """with injected(): urllib3 uses the pyOpenSSL backend inside the block."""

    def __enter__(self):
        import urllib3.contrib.pyopenssl as up

        install()
        up.inject_into_urllib3()
        return self

    def __exit__(self, *a):
        import urllib3.contrib.pyopenssl as up

        up.extract_from_urllib3()
