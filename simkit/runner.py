"""Batch driver: seeded index space -> scenarios -> runs -> oracles; known-finding
attribution; minimisation; fresh-process replay; evidence.

Exit status: 0 = held on everything explored (KNOWN-FINDING lines allowed),
1 = VIOLATION line printed (reproduced in a fresh interpreter), 2 = HARNESS-ERROR.
"""
from __future__ import annotations

import collections
import concurrent.futures as cf
import copy
import faulthandler
import hashlib
import importlib
import json
import multiprocessing
import os
import random
import signal
import subprocess
import sys
import time
import traceback

VERIF = os.path.dirname(os.path.dirname(os.path.abspath(__file__)))
OUT = os.environ.get("VERIF_OUT_DIR") or os.path.join(VERIF, "out")  # trials against seeded changes redirect both
EVID = os.environ.get("VERIF_EVIDENCE_DIR") or os.path.join(VERIF, "evidence")
KF_FILE = os.path.join(VERIF, "known_findings.json")

CLAIMED = ["C01", "C02", "C03", "C04", "C05", "C06", "C07", "C09", "C10", "C11", "C12", "C13", "C15", "C17", "C18", "C19"]

COMPONENTS = {
    "real": [
        "urllib3 (every module, from /repo/src working tree)", "http.client", "email header parser",
        "io.BufferedReader over socket.SocketIO", "zlib", "zstandard", "OpenSSL via ssl (handshake, chain + hostname verification)",
        "urllib3.util.ssltransport.SSLTransport (client TLS record pump)", "h2 (HTTP/2 clause of C10)",
        "urllib3.contrib.pyopenssl + pyOpenSSL/cryptography (C07 backend axis; Connection in memory-BIO mode)",
    ],
    "stub": [
        "kernel sockets / TCP (SimSocket)", "DNS (scenario table)", "select.poll (SimPoll)", "time.monotonic/time/sleep (VClock)",
        "random.random in back-off jitter (seeded)", "thread scheduling decisions (simsched baton)", "queue.LifoQueue -> SimLifoQueue (simsched runs)",
        "threading.RLock -> SimRLock (simsched runs)", "ssl.SSLSocket -> SSLTransport over SimSocket", "pyOpenSSL fd transport -> memory-BIO pump over SimSocket (simkit/ossl.py)", "origin servers and proxies (scripted reactive models)",
    ],
}


class WallLimit(BaseException):
    pass


def rng_for(seed: int, prop: str, k: int, stream: str = "gen") -> random.Random:
    h = hashlib.sha256(f"{seed}/{prop}/{k}/{stream}".encode()).digest()
    return random.Random(int.from_bytes(h[:8], "big"))


def stable_hash(obj) -> str:
    """Digest that does not depend on PYTHONHASHSEED."""
    return hashlib.sha256(repr(obj).encode("utf-8", "backslashreplace")).hexdigest()[:16]


class Result:
    """What one run of one scenario produced."""

    __slots__ = ("violations", "digest", "trace", "nontrivial", "sim_s", "faults", "probes", "info", "steps")

    def __init__(self):
        self.violations: list[tuple[str, str]] = []
        self.digest = ""
        self.trace = None
        self.nontrivial = False
        self.sim_s = 0.0
        self.faults = collections.Counter()
        self.probes = collections.Counter()
        self.info: dict = {}
        self.steps = 0

    def bad(self, cls: str, detail: str = "") -> None:
        if not any(c == cls for c, _ in self.violations):
            self.violations.append((cls, str(detail)[:400]))

    def classes(self):
        return [c for c, _ in self.violations]


def load_prop(pid: str):
    return importlib.import_module(f"props.{pid.lower()}")


def load_known(pid: str):
    try:
        with open(KF_FILE) as f:
            allk = json.load(f)
    except FileNotFoundError:
        return []
    return [k for k in allk if k["property"] == pid]


# --------------------------------------------------------------------------- attribution


def attribute(mod, known_open, sc, res, cls) -> str | None:
    """Return the id of the open known finding that explains violation class `cls`
    of scenario `sc`, or None.  Explains = class listed, trigger present, and the
    violation disappears when the scenario is re-run neutralised."""
    for kf in known_open:
        if cls not in kf["classes"]:
            continue
        trig, neut = mod.KNOWN[kf["id"]]
        try:
            if not trig(sc, res):
                continue
            sc2 = neut(copy.deepcopy(sc))
        except Exception:
            continue
        if sc2 is None:
            continue
        res2 = mod.run(sc2)
        if cls not in res2.classes():
            return kf["id"]
    return None


def unattributed(mod, known_open, sc, res):
    out = []
    hits = []
    for cls, detail in res.violations:
        kid = attribute(mod, known_open, sc, res, cls)
        if kid is None:
            out.append((cls, detail))
        else:
            hits.append(kid)
    return out, hits


# --------------------------------------------------------------------------- worker


def _alarm(signum, frame):
    raise WallLimit("scenario exceeded the wall-clock cap")


def run_guarded(mod, sc, wall: float = 30.0):
    signal.signal(signal.SIGALRM, _alarm)
    signal.setitimer(signal.ITIMER_REAL, wall)
    try:
        return mod.run(sc)
    finally:
        signal.setitimer(signal.ITIMER_REAL, 0)


def _coverage_start():
    """Reach measurement (selftest/reach.py): with VERIF_COVERAGE_DIR set, every line of urllib3 a worker executes is recorded once
    (sys.monitoring, each location switched off after its first hit).  Never set by the registered commands."""
    d = os.environ.get("VERIF_COVERAGE_DIR")
    if not d:
        return None
    import sys as _sys

    mon = _sys.monitoring
    seen = set()
    marker = os.sep + "urllib3" + os.sep

    def cb(code, line):
        fn = code.co_filename
        if marker in fn:
            seen.add((fn[fn.rindex(marker) + len(marker):], line))
        return mon.DISABLE

    mon.use_tool_id(4, "verif-reach")
    mon.register_callback(4, mon.events.LINE, cb)
    mon.set_events(4, mon.events.LINE)
    return seen


def _coverage_dump(seen, pid, lo):
    if seen is None:
        return
    d = os.environ["VERIF_COVERAGE_DIR"]
    os.makedirs(d, exist_ok=True)
    with open(os.path.join(d, f"{pid}-{lo}.json"), "w") as f:
        json.dump(sorted(seen), f)


def _worker(pid: str, seed: int, tier: str, lo: int, hi: int, stride: int, deadline: float, resample: int):
    try:
        faulthandler.enable()
        hard = max(60.0, deadline - time.time() + 120.0)
        faulthandler.dump_traceback_later(hard, exit=True)
        from . import world as W

        W.install_seams()
        mod = load_prop(pid)
        known_open = [k for k in load_known(pid) if k["status"] == "open"]
        if hasattr(mod, "warmup"):
            mod.warmup()
        W.freeze_heap()
        cov = _coverage_start()
        agg = dict(
            evals=0, traces=set(), faults=collections.Counter(), probes=collections.Counter(), sim_s=0.0, viol=[], kf_hits=collections.Counter(),
            resampled=0, diverged=[], samples=[], indices=0, steps=0, stopped_early=False,
        )
        n = 0
        for k in range(lo, hi, stride):
            if time.time() > deadline:
                agg["stopped_early"] = True
                break
            agg["indices"] += 1
            for j, sc in enumerate(mod.cases(seed, k, tier)):
                res = run_guarded(mod, sc)
                n += 1
                agg["evals"] += 1
                agg["sim_s"] += res.sim_s
                agg["steps"] += res.steps
                agg["faults"].update(res.faults)
                agg["probes"].update(res.probes)
                if res.nontrivial and res.trace is not None:
                    agg["traces"].add(res.trace)
                if len(agg["samples"]) < 2 and res.nontrivial:
                    agg["samples"].append(sc)
                if resample and n % resample == 0:
                    res_b = run_guarded(mod, sc)
                    agg["resampled"] += 1
                    if res_b.digest != res.digest or res_b.classes() != res.classes():
                        agg["diverged"].append(sc)
                if res.violations:
                    un, hits = unattributed(mod, known_open, sc, res)
                    agg["kf_hits"].update(hits)
                    for cls, detail in un:
                        if sum(1 for v in agg["viol"] if v[0] == cls) < 3:
                            agg["viol"].append((cls, detail, dict(sc, _where=[lo, stride, k, j])))
        faulthandler.cancel_dump_traceback_later()
        _coverage_dump(cov, pid, lo)
        return ("ok", agg)
    except BaseException as e:  # harness failure inside a worker
        return ("error", f"{type(e).__name__}: {e}\n{traceback.format_exc()}")


# --------------------------------------------------------------------------- minimise


def minimise(mod, known_open, sc, cls, max_runs: int = 600, wall: float = 120.0):
    t0 = time.time()
    runs = 0
    cur = sc
    progress = True
    while progress and runs < max_runs and time.time() - t0 < wall:
        progress = False
        for cand in mod.shrinks(cur):
            runs += 1
            if runs > max_runs or time.time() - t0 > wall:
                break
            try:
                res = run_guarded(mod, cand)
            except BaseException:
                continue
            if cls in res.classes() and attribute(mod, known_open, cand, res, cls) is None:
                cur = cand
                progress = True
                break
    return cur, runs


def history_before(mod, seed, tier, where):
    """Every scenario the worker that found a violation had run before it (same order, including the determinism re-runs),
    plus the violating one last."""
    lo, stride, k_v, j_v = where
    resample = getattr(mod, "RESAMPLE", 20)
    out = []
    n = 0
    for k in range(lo, k_v + 1, stride):
        for j, sc in enumerate(mod.cases(seed, k, tier)):
            out.append(sc)
            n += 1
            if k == k_v and j == j_v:
                return out
            if resample and n % resample == 0:
                out.append(sc)
    return out


def _fresh_replay(pid, path, timeout=900):
    env = dict(os.environ, PYTHONHASHSEED="0")
    p = subprocess.run([sys.executable, os.path.join(VERIF, "simkit", "main.py"), pid, "--replay", path], capture_output=True, text=True, env=env, timeout=timeout)
    return p.returncode, p.stdout, p.stderr


def sequence_replay(pid, mod, seed, tier, sc, cls, detail, path):
    """A violation that does not reproduce alone: look for the shortest run of preceding scenarios (same worker, same order) after
    which it does -- state kept by the library between requests of one process.  Returns the replay path or None."""
    where = sc.get("_where")
    if not where:
        return None
    hist = history_before(mod, seed, tier, where)
    target = {k: v for k, v in hist[-1].items() if k != "_where"}
    prefix = hist[:-1]

    def attempt(pre):
        doc = {"property": pid, "sequence": [dict(x) for x in pre] + [target], "expect": {"class": cls, "detail": detail}}
        with open(path, "w") as f:
            json.dump(doc, f, indent=1, sort_keys=True, default=str)
        try:
            rc, out, err = _fresh_replay(pid, path)
        except subprocess.TimeoutExpired:
            return False
        return rc == 1

    n = 1
    found = None
    while True:
        pre = prefix[-n:] if n < len(prefix) else prefix
        if attempt(pre):
            found = pre
            break
        if n >= len(prefix):
            break
        n *= 4
    if found is None:
        return None
    # drop scenarios one at a time while it still reproduces (bounded)
    cur = list(found)
    tries = 0
    i = 0
    while i < len(cur) and tries < 40 and len(cur) > 1:
        cand = cur[:i] + cur[i + 1 :]
        tries += 1
        if attempt(cand):
            cur = cand
        else:
            i += 1
    attempt(cur)
    return path


def scenario_size(sc) -> int:
    return len(json.dumps(sc, sort_keys=True))


# --------------------------------------------------------------------------- replay


def replay_file(path: str) -> int:
    from . import world as W

    W.install_seams()
    with open(path) as f:
        sc = json.load(f)
    pid = sc["property"]
    mod = load_prop(pid)
    if hasattr(mod, "warmup"):
        mod.warmup()
    known_open = [k for k in load_known(pid) if k["status"] == "open"]
    if "sequence" in sc:
        # history-dependent violation: the scenarios before the last one are run first, in the same process, in order
        for prev in sc["sequence"][:-1]:
            run_guarded(mod, prev)
        last = dict(sc["sequence"][-1])
        last["expect"] = sc.get("expect")
        sc = last
    res = run_guarded(mod, sc)
    exp = (sc.get("expect") or {}).get("class")
    un, hits = unattributed(mod, known_open, sc, res)
    got = [c for c, _ in un]
    print(f"replay {path}: classes={res.classes()} unattributed={got} expect={exp} digest={res.digest}")
    for c, d in res.violations:
        print(f"  {c}: {d}")
    if (exp is None and got) or (exp is not None and exp in got):
        print(f"VIOLATION property={pid} replay={path}")
        return 1
    if exp is not None and exp in res.classes():
        print(f"KNOWN-FINDING: property={pid} {hits}")
    return 0


# --------------------------------------------------------------------------- main check


def run_check(pid: str, tier: str, seed: int, n_override=None, workers=None, budget=None) -> int:
    t0 = time.time()
    from . import world as W

    W.install_seams()
    mod = load_prop(pid)
    if hasattr(mod, "warmup"):
        mod.warmup()
    os.makedirs(OUT, exist_ok=True)
    os.makedirs(EVID, exist_ok=True)
    known = load_known(pid)
    known_open = [k for k in known if k["status"] == "open"]
    rc = 0
    kf_lines = []
    violations_out = []

    # 1. witnesses: open findings are shown, fixed ones must stay fixed
    for kf in known:
        wpath = os.path.join(VERIF, kf["witness"])
        with open(wpath) as f:
            wsc = json.load(f)
        res = run_guarded(mod, wsc)
        exp = wsc["expect"]["class"]
        if kf["status"] == "open":
            if exp in res.classes():
                line = f"KNOWN-FINDING: property={pid} {kf['id']}: {kf['what']}"
                print(line)
                kf_lines.append(kf["id"])
            else:
                print(f"note: witness of open finding {kf['id']} no longer fails on this tree")
        else:
            if exp in res.classes():
                violations_out.append((exp, "regression of a fixed defect: " + kf["what"], wsc, wpath))

    # 2. sweep
    n_idx = n_override or mod.N[tier]
    nw = workers or min(16, os.cpu_count() or 1)
    nw = max(1, min(nw, n_idx))
    budget = budget or float(os.environ.get("VERIF_BUDGET_S", 0)) or mod.BUDGET[tier]
    deadline = t0 + budget
    resample = getattr(mod, "RESAMPLE", 20)
    ctx = multiprocessing.get_context("fork")
    aggs = []
    with cf.ProcessPoolExecutor(max_workers=nw, mp_context=ctx) as ex:
        futs = [ex.submit(_worker, pid, seed, tier, w, n_idx, nw, deadline, resample) for w in range(nw)]
        try:
            for fu in futs:
                st, payload = fu.result(timeout=budget + 300)
                if st != "ok":
                    print(f"HARNESS-ERROR worker failed: {payload}")
                    return 2
                aggs.append(payload)
        except (cf.process.BrokenProcessPool, cf.TimeoutError) as e:
            print(f"HARNESS-ERROR worker died or timed out: {type(e).__name__} {e}")
            return 2

    evals = sum(a["evals"] for a in aggs)
    traces = set()
    faults = collections.Counter()
    probes = collections.Counter()
    kf_hits = collections.Counter()
    viol = []
    diverged = []
    for a in aggs:
        traces |= a["traces"]
        faults.update(a["faults"])
        probes.update(a["probes"])
        kf_hits.update(a["kf_hits"])
        viol.extend(a["viol"])
        diverged.extend(a["diverged"])
    sim_s = sum(a["sim_s"] for a in aggs)
    steps = sum(a["steps"] for a in aggs)
    resampled = sum(a["resampled"] for a in aggs)
    samples = [s for a in aggs for s in a["samples"]][:3]
    diverged_path = None
    if diverged:
        diverged_path = os.path.join(OUT, f"{pid}-nondeterministic.json")
        json.dump(diverged[0], open(diverged_path, "w"), indent=1)
        if not viol:
            print(f"HARNESS-ERROR nondeterministic: same scenario, two digests ({diverged_path})")
            return 2
        # (violations were seen as well: they are minimised and confirmed in fresh interpreters below, and a confirmed one is reported --
        #  a tree that breaks the property can also make a run depend on the random bytes of a TLS handshake, e.g. by writing a request
        #  onto a half-established session; if none is confirmed this remains a harness error)

    # 3. vacuity: required probes must have fired
    missing = [p for p in getattr(mod, "REQUIRED_PROBES", {}).get(tier, []) if probes.get(p, 0) == 0 and faults.get(p, 0) == 0]

    # 4. new violations: minimise, write, confirm in a fresh interpreter
    by_cls = collections.OrderedDict()
    origin = {}
    for cls, detail, sc in sorted(viol, key=lambda v: (v[0], scenario_size(v[2]))):
        by_cls.setdefault(cls, (detail, sc))
    for cls, (detail, sc) in list(by_cls.items())[:4]:
        sc_full = sc
        sc = {k_: v_ for k_, v_ in sc.items() if k_ != "_where"}
        small, runs = minimise(mod, known_open, sc, cls)
        small = dict(small)
        small["property"] = pid
        small["expect"] = {"class": cls, "detail": detail}
        name = f"{pid}-{seed}-{hashlib.sha256(json.dumps(small, sort_keys=True).encode()).hexdigest()[:10]}.json"
        path = os.path.join(OUT, name)
        with open(path, "w") as f:
            json.dump(small, f, indent=1, sort_keys=True)
        with open(path[:-5] + ".orig", "w") as f:
            json.dump(dict(sc, property=pid, expect={"class": cls, "detail": detail}), f, indent=1, sort_keys=True, default=str)
        violations_out.append((cls, detail, small, path))
        origin[path] = sc_full
    unreproduced = []
    for cls, detail, sc, path in violations_out:
        env = dict(os.environ, PYTHONHASHSEED="0")
        p = subprocess.run([sys.executable, os.path.join(VERIF, "simkit", "main.py"), pid, "--replay", path], capture_output=True, text=True, env=env, timeout=300)
        if p.returncode == 1:
            print(f"VIOLATION property={pid} replay={path}")
            print(f"  class={cls} detail={detail}")
            rc = 1
        elif origin.get(path) is not None and sequence_replay(pid, mod, seed, tier, origin[path], cls, detail, path[:-5] + "-sequence.json"):
            spath = path[:-5] + "-sequence.json"
            print(f"VIOLATION property={pid} replay={spath}")
            print(f"  class={cls} detail={detail}")
            print("  (history-dependent: reproduces only after the scenarios listed before it in the replay file, run in one process)")
            rc = 1
        else:
            unreproduced.append(f"violation {cls} did not reproduce in a fresh interpreter ({path})\n{p.stdout[-2000:]}\n{p.stderr[-2000:]}")

    if diverged_path is not None:
        if rc == 1:
            print(f"note: one scenario gave two digests when run twice ({diverged_path}); the violations above were each confirmed in a fresh interpreter")
        else:
            print(f"HARNESS-ERROR nondeterministic: same scenario, two digests ({diverged_path})")
            return 2
    if unreproduced:
        if rc == 1:
            # something else was confirmed; these stay notes (state kept between requests makes some of them order-dependent)
            for u in unreproduced:
                print("note: " + u.splitlines()[0])
        else:
            print("HARNESS-ERROR nondeterministic: " + unreproduced[0])
            return 2
    wall = time.time() - t0
    cov = {
        "evaluations": evals,
        "distinct_nontrivial": len(traces),
        "rule": mod.RULE,
        "samples": samples or [{"note": "no non-trivial sample recorded"}],
        "indices": sum(a["indices"] for a in aggs),
        "runs_per_hour": int(evals / wall * 3600) if wall > 0 else 0,
        "seeds": {"verif_seed": seed, "indices_planned": n_idx, "workers": nw},
        "sim_seconds": round(sim_s, 3),
        "steps": steps,
        "faults_fired": dict(sorted(faults.items())),
        "probes": dict(sorted(probes.items())),
        "distinct_interleavings": len(traces) if getattr(mod, "ENGINE", "simnet") != "simnet" else None,
        "known_findings_printed": kf_lines,
        "known_finding_hits_in_sweep": dict(kf_hits),
        "determinism_resample": {"checked": resampled, "diverged": 0},
        "stopped_early": any(a["stopped_early"] for a in aggs),
        "missing_required_probes": missing,
        "components": COMPONENTS,
        "engine": getattr(mod, "ENGINE", "simnet"),
    }
    if hasattr(mod, "extra_evidence"):
        cov.update(mod.extra_evidence())
    ev = {
        "property_id": pid,
        "tier": tier,
        "seed": seed,
        "level": mod.LEVEL,
        "coverage": cov,
        "assumptions": mod.ASSUMPTIONS,
        "wall_s": round(wall, 2),
        "violations": len(violations_out),
    }
    with open(os.path.join(EVID, f"{pid}.json"), "w") as f:
        json.dump(ev, f, indent=1, sort_keys=True, default=str)
    print(
        f"{pid} {tier} seed={seed}: {evals} runs ({len(traces)} distinct non-trivial traces) in {wall:.1f}s, "
        f"{sum(faults.values())} faults fired of {len(faults)} kinds, known-finding hits {dict(kf_hits)}, violations {len(violations_out)}"
    )
    if missing and rc == 0:
        print(f"HARNESS-ERROR vacuous: required probes never fired: {missing}")
        return 2
    return rc


def main(argv=None) -> int:
    argv = list(sys.argv[1:] if argv is None else argv)
    if not argv:
        print("usage: check <Cnn> [--tier quick|thorough] [--replay file] [--n N] | selftest | mutants")
        return 2
    cmd = argv.pop(0)
    opts = {}
    while argv:
        a = argv.pop(0)
        if a.startswith("--"):
            opts[a[2:]] = argv.pop(0) if argv and not argv[0].startswith("--") else "1"
        else:
            opts["_pos"] = a
    seed = int(os.environ.get("VERIF_SEED", "1") or 1)
    tier = opts.get("tier") or os.environ.get("VERIF_TIER") or "quick"
    if tier not in ("quick", "thorough"):
        tier = "quick"
    try:
        if cmd == "selftest":
            from . import selftest

            return selftest.main(opts)
        if cmd == "digests":
            from . import selftest

            pid = None
            # usage: digests <Cnn> --n N --seed S
            return selftest.digests(opts.get("_pos", "C01"), int(opts.get("n", 100)), int(opts.get("seed", seed)))
        if "replay" in opts:
            return replay_file(opts["replay"])
        return run_check(cmd.upper(), tier, seed, n_override=int(opts["n"]) if "n" in opts else None, workers=int(opts["workers"]) if "workers" in opts else None, budget=float(opts["budget"]) if "budget" in opts else None)
    except SystemExit:
        raise
    except BaseException as e:
        print(f"HARNESS-ERROR {type(e).__name__}: {e}")
        traceback.print_exc()
        return 2
