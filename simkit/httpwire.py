"""Strict, independent readers of what the client wrote: HTTP/1.1 request parsing by
line structure (RFC 9112), request body framing, and a reference request-target
encoder (RFC 3986).  Nothing here uses http.client or urllib3."""
from __future__ import annotations

import re

TOKEN = re.compile(rb"^[!#$%&'*+\-.^_`|~0-9A-Za-z]+$")


class WireError(Exception):
    pass


def split_lines_paranoid(data: bytes, start: int):
    """Lines as the most lenient reader would see them: CRLF, bare LF and bare CR all
    end a line.  Yields (line, next_pos) and stops after the first empty line."""
    pos = start
    n = len(data)
    cur = bytearray()
    while pos < n:
        c = data[pos]
        if c == 0x0D:
            pos += 2 if data[pos + 1 : pos + 2] == b"\n" else 1
            yield bytes(cur), pos
            if not cur:
                return
            cur = bytearray()
        elif c == 0x0A:
            pos += 1
            yield bytes(cur), pos
            if not cur:
                return
            cur = bytearray()
        else:
            cur.append(c)
            pos += 1
    yield None, pos  # ran out of data before the empty line


def unfold(v: bytes) -> bytes:
    return re.sub(rb"[ \t]*(?:(?:\r\n|\r|\n)[ \t]+)+", b" ", v).strip(b" \t")


def parse_requests(data: bytes, max_requests: int = 8):
    """Split `data` into HTTP/1.1 requests.  Returns (requests, leftover, error):
    each request is a dict(method, target, version, fields[(name, value)], raw_lines,
    framing, body, chunk_sizes); `leftover` = bytes that do not form a further complete
    request; `error` = a description if the structure is broken."""
    out = []
    pos = 0
    n = len(data)
    while pos < n and len(out) < max_requests:
        lines = []
        end_pos = None
        for ln, nxt in split_lines_paranoid(data, pos):
            if ln is None:
                return out, data[pos:], "incomplete head"
            if ln == b"":
                end_pos = nxt
                break
            lines.append(ln)
        if end_pos is None:
            return out, data[pos:], "incomplete head"
        if not lines:
            return out, data[pos:], "empty line where a request line was expected"
        rl = lines[0]
        parts = rl.split(b" ")
        if len(parts) != 3:
            return out, data[pos:], f"request line has {len(parts)} parts: {rl[:80]!r}"
        method, target, version = parts
        if not TOKEN.match(method):
            return out, data[pos:], f"method is not a token: {method!r}"
        if version != b"HTTP/1.1":
            return out, data[pos:], f"version {version!r}"
        if not target or any(c <= 0x20 or c == 0x7F or c >= 0x80 for c in target):
            return out, data[pos:], f"target contains SP/CTL/non-ASCII: {target[:80]!r}"
        fields = []
        for ln in lines[1:]:
            if ln[:1] in (b" ", b"\t"):
                if not fields:
                    return out, data[pos:], "continuation line before any field"
                fields[-1] = (fields[-1][0], (fields[-1][1].rstrip(b" \t") + b" " + ln.strip(b" \t")).strip(b" \t"))  # folded continuation
                continue
            name, sep, value = ln.partition(b":")
            if not sep:
                return out, data[pos:], f"header line without colon: {ln[:80]!r}"
            fields.append((name, value.strip(b" \t")))
        end = end_pos - 4
        req = {"method": method, "target": target, "version": version, "fields": fields, "head_len": end + 4 - pos}
        pos = end + 4
        te = [v for k, v in fields if k.lower() == b"transfer-encoding"]
        cl = [v for k, v in fields if k.lower() == b"content-length"]
        req["framing"] = None
        req["body"] = b""
        req["chunk_sizes"] = None
        if te and b"chunked" in te[-1].lower():
            req["framing"] = "chunked"
            body = bytearray()
            sizes = []
            while True:
                i = data.find(b"\r\n", pos)
                if i < 0:
                    return out + [req], b"", "chunked body: missing size line"
                line = data[pos:i]
                if not re.match(rb"^[0-9A-Fa-f]+$", line):
                    return out + [req], data[pos:], f"bad chunk-size line {line[:40]!r}"
                sz = int(line, 16)
                pos = i + 2
                if sz == 0:
                    if data[pos : pos + 2] != b"\r\n":
                        return out + [req], data[pos:], "chunked body: no CRLF after last chunk"
                    pos += 2
                    break
                if data[pos + sz : pos + sz + 2] != b"\r\n":
                    return out + [req], data[pos:], f"chunk of declared size {sz} is not followed by CRLF"
                body += data[pos : pos + sz]
                sizes.append(sz)
                pos += sz + 2
            req["body"] = bytes(body)
            req["chunk_sizes"] = sizes
        elif cl:
            if len(cl) > 1 or not re.match(rb"^[0-9]+$", cl[0]):
                return out + [req], data[pos:], f"bad Content-Length {cl!r}"
            k = int(cl[0])
            req["framing"] = "cl"
            if pos + k > n:
                return out + [req], data[pos:], f"body shorter ({n - pos}) than Content-Length {k}"
            req["body"] = data[pos : pos + k]
            pos += k
        out.append(req)
    return out, data[pos:], None


# ----------------------------------------------------------------------------- reference target encoding

UNRESERVED = set(b"ABCDEFGHIJKLMNOPQRSTUVWXYZabcdefghijklmnopqrstuvwxyz0123456789._-~")
SUB_DELIMS = set(b"!$&'()*+,;=")
PATH_OK = UNRESERVED | SUB_DELIMS | set(b":@/")
QUERY_OK = PATH_OK | set(b"?")
HEX = set(b"0123456789abcdefABCDEF")


def has_stray_percent(component: str) -> bool:
    raw = component.encode("utf-8", "surrogatepass")
    return any(c == 0x25 and not (i + 3 <= len(raw) and raw[i + 1] in HEX and raw[i + 2] in HEX) for i, c in enumerate(raw))


def _enc(component: str, ok: set, all_percent: bool) -> str:
    if all_percent:
        component = re.sub(r"%[0-9a-fA-F]{2}", lambda m: m.group(0).upper(), component)
    raw = component.encode("utf-8", "surrogatepass")
    out = bytearray()
    i = 0
    while i < len(raw):
        c = raw[i]
        if c == 0x25 and not all_percent and i + 3 <= len(raw) and raw[i + 1] in HEX and raw[i + 2] in HEX:
            out += b"%" + bytes(raw[i + 1 : i + 3]).upper()
            i += 3
            continue
        if c in ok and c != 0x25:
            out.append(c)
        else:
            out += b"%%%02X" % c
        i += 1
    return out.decode("ascii")


def ref_targets(target: str) -> set[str]:
    """Acceptable encodings of an origin-form target 'path[?query][#fragment]':
    fragment dropped, illegal characters percent-encoded as UTF-8, valid %XX kept
    (hex upper-cased).  Where a component mixes valid escapes with stray '%' both
    readings (keep the valid ones / encode every '%') are accepted."""
    t = target.split("#", 1)[0]
    path, sep, query = t.partition("?")
    outs = set()
    for ap in ((False, True) if has_stray_percent(path) else (False,)):
        for aq in ((False, True) if has_stray_percent(query) else (False,)):
            s = _enc(path, PATH_OK, ap)
            if sep:
                s += "?" + _enc(query, QUERY_OK, aq)
            outs.add(s)
    return outs


