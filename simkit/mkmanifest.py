"""Regenerates MANIFEST.json from the property modules that exist."""
import json
import os
import sys

HERE = os.path.dirname(os.path.dirname(os.path.abspath(__file__)))
sys.path.insert(0, HERE)
sys.path.insert(0, "/repo/src")

NA = {
    "C08": "pure functions of (certificate dict, hostname / DER blob, pin): no schedule, clock, I/O, fault or second party for a simulator to control; deciding it is exhaustive enumeration against a reference, not simulation (their use in a handshake is covered by C07)",
    "C14": "parse_url is a pure total function of one string; totality, idempotence, agreement with a reference parser and the running-time clause are input-space / complexity questions with nothing to simulate (its effect on the wire is C15)",
    "C16": "HTTPHeaderDict is a single-threaded in-memory container without I/O, time, faults or peers; operation sequences against a reference multimap are model-based testing with nothing for a simulator to control",
    "C20": "encode_multipart_formdata is a pure function of the field list (the boundary can be fixed by the caller); parsing its output back needs no network, clock or scheduler",
}

TEXT = {}


def main():
    from simkit.runner import CLAIMED

    checks = []
    na = [{"property_id": k, "reason": v} for k, v in sorted(NA.items())]
    for pid in CLAIMED:
        path = os.path.join(HERE, "props", pid.lower() + ".py")
        if not os.path.exists(path):
            na.append({"property_id": pid, "reason": "check not built yet (planned: deterministic simulation, see DESIGN.md section 3)"})
            continue
        import importlib

        mod = importlib.import_module("props." + pid.lower())
        checks.append(
            {
                "property_id": pid,
                "quick_cmd": f"./check {pid} --tier quick",
                "thorough_cmd": f"./check {pid} --tier thorough",
                "evidence_file": f"evidence/{pid}.json",
                "replay_cmd_template": f"./check {pid} --replay {{path}}",
                "engine": mod.ENGINE,
                "level_claimed": {"category": mod.LEVEL, "text": mod.LEVEL_TEXT, "design_ref": f"DESIGN.md section 3, {pid}"},
                "level_note": mod.LEVEL_NOTE,
                "technique": mod.TECHNIQUE,
            }
        )
    man = {
        "version": 1,
        "setup_cmd": "/venv/bin/python -c \"import trustme, h2, zstandard, OpenSSL, cryptography; import sys; sys.path.insert(0,'/repo/src'); import urllib3\" && chmod +x check",
        "hooks": {
            "guard": "URLLIB3_VERIF_SIM",
            "enable": "no source hooks: every seam is a module-namespace/class-attribute substitution done by the harness at run time (DESIGN.md 2.1); checks import urllib3 from /repo/src's working tree",
            "baseline_off_cmd": "cd /repo && /venv/bin/python -m pytest -ra -q -p no:cacheprovider --timeout=900 --continue-on-collection-errors",
            "source_commits": [],
            "add_only": True,
        },
        "engines": [
            {"name": "simnet", "path": "simkit/world.py", "serves_properties": [c["property_id"] for c in checks if c["engine"] == "simnet"], "kind_free_text": "single-threaded discrete-event network simulator: virtual clock, DNS, in-memory TCP byte streams with seeded segmentation and fault injection, reactive HTTP/proxy/TLS peer models"},
            {"name": "simsched", "path": "simkit/sched.py", "serves_properties": [c["property_id"] for c in checks if c["engine"] != "simnet"], "kind_free_text": "deterministic thread scheduler: baton-passing real threads, pre-emption at sys.monitoring LINE events of urllib3 code and at simulated queue/lock/socket operations, seeded choice of who runs"},
        ],
        "checks": checks,
        "not_applicable": sorted(na, key=lambda x: x["property_id"]),
        "notes": "Deterministic simulation with fault injection. One integer (VERIF_SEED) decides every generated scenario, fault and schedule; replay files are explicit scenarios. Exit 0 = held (KNOWN-FINDING lines allowed), 1 = VIOLATION confirmed in a fresh interpreter, 2 = HARNESS-ERROR.",
    }
    with open(os.path.join(HERE, "MANIFEST.json"), "w") as f:
        json.dump(man, f, indent=1)
    print("claimed", [c["property_id"] for c in checks])


if __name__ == "__main__":
    main()
